CHECKS = [
 {"id": "C10", "ref": "DESIGN.md 3/C10",
  "technique": "runtime monitoring: class-invariant monitor on every mesh construction vs closed-form geometric oracle",
  "text": "Every mesh constructed by the workload (9 classes x both constructor forms x seeded face families incl. r0=0, offsets, partial angular ranges, poles) is checked by an invariant monitor: dims, face positions bit-for-bit, centres, sizes, ghost sizes, per-cell volume against the closed-form geometric volume (rel 1e-12), positivity, total, and label reachability. Held = on the executions listed in the evidence; SphericalGrid3D theta-factor is a known finding with a mechanistic discriminator.",
  "note": "trusted: oracle closed forms in pvmon/oracles.py; numpy; exploration only covers generated grids (N<=12 per axis, width ratios <=50)"},
]
NOT_APPLICABLE = [
 {"property_id": "C%02d" % i, "reason": "check under construction in this session (runtime monitor not yet registered)"}
 for i in range(1, 18) if "C%02d" % i not in [c["id"] for c in CHECKS]
]
