_NOTE = ("trusted base: the independent oracles in pvmon/oracles.py (closed-form geometry, published limiter forms), numpy/scipy "
         "(spsolve inside the spy solver), the seeded generators; exploration covers only the generated executions listed in the "
         "evidence file (small grids, N<=6 per axis; width ratios <=50), 'held' never means proved")

CHECKS = [
 {"id": "C01", "ref": "DESIGN.md 3/C01",
  "technique": "runtime monitoring: flux-telescoping monitor on real term matrices (full basis) + integral-over-time monitor on solver histories via spy solver",
  "text": "Operator level: V-weighted column sums of the interior rows of every flux-form term (diffusion, central, upwind, divergence, TVD) are compared with the oracle's boundary-flux functional on the full basis of unit fields, so interior-face cancellation is decided for every field on the generated grids. Solver level: 1-5 implicit/explicit steps in closed systems (periodic / walls) and one-step open systems, tolerance derived from the captured system. Known findings (SphericalGrid3D measure, upwind across periodic boundary) are classified by re-running the discriminating experiment.",
  "note": _NOTE},
 {"id": "C03", "ref": "DESIGN.md 3/C03",
  "technique": "runtime monitoring: post-condition monitor on ghost layers after each (re)computation + boundary-row consistency + (a,b,c)-scale invariance via spy solver",
  "text": "After construction (both styles), apply_BCs, copy, solvePDE and solveExplicitPDE every boundary face is checked against a*dphi/dn (with 1/r, 1/(r sin theta)) + b*phi = c from the oracle metric; periodic axes (flag on left only / right only / both, every subset of axes) must wrap bitwise and non-periodic ones must not; boundaryConditionsTerm rows must vanish on the reported values; plotprofile boundary entries; scaling (a,b,c) must leave the captured system's solution unchanged.",
  "note": _NOTE},
 {"id": "C05", "ref": "DESIGN.md 3/C05",
  "technique": "runtime monitoring: entrywise comparison of real term matrices with the real explicit chain evaluated on the full basis of unit fields; TVD identities per limiter",
  "text": "For every generated grid and coefficient/velocity field (all sign patterns, exact zeros) the interior rows of diffusionTerm / convectionTerm / convectionUpwindTerm(u[,u_upwind]) are compared entry by entry with divergenceTerm(D*gradientTerm), divergenceTerm(u*linearMean), divergenceTerm(u*upwindMean) built on the full basis incl. ghost cells - i.e. decided for every field on those grids. TVD: zero limiter => exactly zero, unit limiter on uniform grids => central operator, and flux form for all 16 limiters.",
  "note": _NOTE},
 {"id": "C06", "ref": "DESIGN.md 3/C06",
  "technique": "runtime monitoring: operator identities on constant fields + steady-state residual monitor through solvePDE with spy solver in discretely divergence-free flows",
  "text": "diffusionTerm*const = 0, central/upwind*const = c*divergenceTerm(u), TVD(const)=0 for all limiters with every velocity sign pattern; uniform field with matching Dirichlet/no-flux/Robin/periodic sides in stream-function / radial / uniform divergence-free flows plugged into the system solvePDE assembled (residual) and compared directly when well conditioned, dt over 12 decades; source terms alone give gamma/beta and are diagonal.",
  "note": _NOTE},
 {"id": "C10", "ref": "DESIGN.md 3/C10",
  "technique": "runtime monitoring: class-invariant monitor on every mesh construction vs closed-form geometric oracle",
  "text": "Every mesh constructed by the workload (9 classes x both constructor forms x seeded face families incl. r0=0, offsets, partial angular ranges, poles) is checked by an invariant monitor: dims, face positions bit-for-bit, centres, sizes, ghost sizes, per-cell volume against the closed-form geometric volume (rel 1e-12), positivity, total, and label reachability. SphericalGrid3D theta-factor is a known finding with a mechanistic discriminator.",
  "note": _NOTE},
 {"id": "C11", "ref": "DESIGN.md 3/C11",
  "technique": "runtime monitoring: face-by-face post-conditions on the five mean functions vs width-weighted oracle formulas, locality probes, 1D-vs-nD agreement",
  "text": "Every face value returned by linearMean/arithmeticMean/geometricMean/harmonicMean/upwindMean is compared with the oracle's formula from the two adjacent cells (bounds, ordering H<=G<=A, constants, linear exactness at face positions, donor selection incl. inflow boundary value and u=0), locality is probed by perturbing cells, and nD results are compared with the 1D routine on embedded fields incl. exact zeros.",
  "note": _NOTE},
 {"id": "C13", "ref": "DESIGN.md 3/C13",
  "technique": "runtime monitoring: post-condition on every limiter evaluation vs exact-rational published forms; finiteness monitor on the TVD term over enumerated integer fields",
  "text": "All 16 limiters are evaluated on a dense grid, powers of ten to +-1e100, and the exact rationals (and their float neighbours) where numerators/denominators vanish, in shapes 0-D..3-D, and compared with the published forms in exact rational arithmetic (value, finiteness, psi(1)=1, TVD bounds, clipping); unknown names fall back to SUPERBEE; convectionTVDupwindRHSTerm must be finite for ALL fields with values in {-1,0,1,2} on 1-D grids (enumerated) and sampled on 2-D/3-D.",
  "note": _NOTE},
 {"id": "C14", "ref": "DESIGN.md 3/C14",
  "technique": "runtime monitoring: contracts around every operator call (values vs numpy, operand snapshots, aliasing and cross-modification probes, BC carry-over, ghost consistency)",
  "text": "Bounded-exhaustive over operator x operand kind x side on all 9 classes for CellVariable and FaceVariable, funceval/celleval/faceeval with 1..8 arguments, copy(), random expression trees: result values bitwise equal to numpy on interiors, operands byte-identical before/after, no shared storage, editing result (values, BC coefficients, periodic flag) leaves operands unchanged and vice versa, result carries the left-most operand's BCs with consistent ghosts.",
  "note": _NOTE},
 {"id": "C16", "ref": "DESIGN.md 3/C16",
  "technique": "runtime monitoring: exhaustive enumeration of requests with table-derived expected outcome (value identity or exception type)",
  "text": "9 classes x 6 coordinate labels x 3 containers, 6 component labels get+set, every non-empty subset of sides declared periodic x 3 entry points, initial-value shape families, constructor arities 0..7 x 3 argument styles, BoundaryFace coefficient types, 17 kinds of unknown term objects; and every documented form for N in 1..4 per axis must run the full API without raising.",
  "note": _NOTE},
]
_REASON = "check under construction in this session (runtime monitor not yet registered)"
NOT_APPLICABLE = [
 {"property_id": "C%02d" % i, "reason": _REASON}
 for i in range(1, 18) if "C%02d" % i not in [c["id"] for c in CHECKS]
]
