#!/usr/bin/env bash
# run every check's quick (or $1) tier on the current tree; prints one line per check
cd "$(dirname "$0")/.."
tier=${1:-quick}
rc=0
for i in 01 02 03 04 05 06 07 08 09 10 11 12 13 14 15 16 17; do
  out=$(./check C$i --tier $tier 2>&1); e=$?
  echo "C$i exit=$e $(echo "$out" | tail -1 | cut -c1-140)"
  if [ $e -ne 0 ]; then rc=1; echo "$out" | grep -E "VIOLATION|INCONCLUSIVE" | cut -c1-300; fi
done
exit $rc
