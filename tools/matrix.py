#!/usr/bin/env python3
"""Markdown table: seeded change -> property it was written against, what it needs, which checks fire (selftest_results.json)."""
import glob, json, os, re
HERE = os.path.dirname(os.path.dirname(os.path.abspath(__file__)))
res = {r['mutant']: r for r in json.load(open(os.path.join(HERE, 'selftest_results.json')))}
print('| id | site (from the author\'s notes) | caught by |')
print('|---|---|---|')
for d in sorted(glob.glob(os.path.join(HERE, 'seeded', '*'))):
    name = os.path.basename(d)
    meta = json.load(open(os.path.join(d, 'meta.json')))
    notes = meta.get('needs_to_manifest', '')
    lines = [l.strip(' #*-') for l in notes.splitlines() if l.strip(' #*-')]
    title = lines[0] if lines else ''
    title = re.sub(r'^(Mutation|mutation)\s*\d+\s*[-:—–]*\s*', '', title)[:150].replace('|', '/')
    r = res.get(name, {})
    firing = ', '.join(r.get('firing_checks', [])) or '(not run)'
    print('| %s | %s | %s |' % (name, title, firing))
