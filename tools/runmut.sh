#!/usr/bin/env bash
# run one check against one seeded change in a scratch worktree of /repo: tools/runmut.sh C04-10 C04 [seed] [tier]
set -e
cd "$(dirname "$0")/.."
id=$1; chk=$2; seed=${3:-0}; tier=${4:-quick}
tmp=$(mktemp -d /tmp/pv_runmut_XXXX)
git -C /repo worktree add -q --detach $tmp/wt HEAD
p="$(pwd)/seeded/$id/patch.diff"; [ -f "$p" ] || p="$(pwd)/benign/$id/patch.diff"; git -C $tmp/wt apply "$p"
set +e
PVMON_NO_ALWAYS_ON=1 VERIF_DEBUG=${VERIF_DEBUG:-1} VERIF_SEED=$seed PVMON_REPO_SRC=$tmp/wt/src PVMON_OUT_DIR=$tmp/out ./check $chk --tier $tier
rc=$?
git -C /repo worktree remove --force $tmp/wt; rm -rf $tmp; git -C /repo worktree prune
exit $rc
