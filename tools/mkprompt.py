#!/usr/bin/env python3
"""Write the prompt for a mutation sub-agent: only the property's text and the path of its own scratch worktree of /repo
(nothing from /verif reaches the agent; the list of earlier changes quotes only the first lines of their own notes).

Usage: tools/mkprompt.py C05 <round> [emphasis]   -> creates the worktree /tmp/wt<round>_C05, PROPERTY.txt in it, prints the prompt path"""
import glob
import json
import os
import subprocess
import sys

HERE = os.path.dirname(os.path.dirname(os.path.abspath(__file__)))

EMPHASIS = {
    'perf': ("This round is about PERFORMANCE OPTIMISATIONS GONE WRONG: each change must read like a speed-up a maintainer would be proud of - memoising a matrix, a "
             "boundary term, a mean or a metric factor per object / per shape / per id(); skipping work when 'nothing changed' according to a flag, a hash, an `is` test or "
             "an array comparison; preallocated work buffers reused between calls; in-place arithmetic (`+=`, `out=`) on arrays that may belong to the caller; views "
             "instead of copies; early returns for zero / uniform / scalar coefficients; vectorised index arithmetic replacing loops; building a sparse matrix from "
             "cached index arrays; lazy evaluation. The optimisation must be exactly neutral for the textbook call sequence and go wrong only when the assumption it "
             "silently makes (nothing was edited in place, the grid is the same object, the shape identifies the grid, the coefficient is still what it was, the result is "
             "consumed before the next call, N is the same along all axes) does not hold."),
    'refactor': ("This round is about DE-DUPLICATION REFACTORS GONE WRONG: the library repeats nearly identical code per grid class (1D/2D/3D x Cartesian / cylindrical / polar / "
                 "spherical). Each change must read like a clean-up that merges several per-grid variants into one generic helper (or makes one variant call another), "
                 "where ONE detail of ONE variant is lost or generalised wrongly: a metric factor (r, r^2, sin(theta), 1/r) evaluated at the cell instead of the face or "
                 "missing for one axis, an axis order, a reshape / broadcasting axis, the ghost-cell width taken from the wrong end, a sign on the high side, an index "
                 "range valid only when Nx == Ny, a periodic branch that existed for one grid only, a dtype. All other grid classes and the uniform / symmetric cases the "
                 "test-suite exercises must give bit-identical or rounding-identical results."),
    'variables': ("This round is about the VARIABLE CLASSES THEMSELVES (CellVariable, FaceVariable, TrackedArray, BoundaryFace, the location containers): properties and "
                  "setters (value, xvalue/rvalue/..., a/b/c, periodic), the labelled coordinate access of the grid's coordinate system, constructors in all their documented "
                  "forms, copy(), update_value(), apply_BCs(), domainIntegral(), plotprofile(), the dirty-flag bookkeeping, and the operators. Each change must be "
                  "invisible in the common usage (a float array, default or simple Dirichlet conditions, one solve) and manifest only through a rarer but documented way "
                  "of using these classes: slice or fancy-index assignment through a property, assignment of a scalar vs an array vs a list, a property read and then "
                  "modified in place, views vs copies, a getter that returns a different object each time, a setter on one label that writes to another component on "
                  "one grid family, shapes (N,) vs (N,1) vs (1,N), size-1 arrays, 0-d arrays, reversed operands, chained operations, objects pickled / deep-copied."),
    'solver': ("This round is about THE SOLVERS AND THE ASSEMBLY LOOP (solvePDE, solveMatrixPDE, solveExplicitPDE, the way terms are accumulated, the transient term, the "
               "source terms, the handling of (matrix, vector) tuples, external solvers, the reshape of the solution into the variable). Each change must be invisible for "
               "the textbook call (one transient term, one diffusion term, default solver, float dt) and manifest only for a legitimate but rarer call: several terms "
               "of the same kind, a term list containing tuples AND bare matrices AND bare vectors, terms passed as a tuple instead of a list, negated or scaled terms, "
               "an empty vector part, sparse matrices in another format (csc, coo, lil) or dense ndarrays where allowed, an external solver that returns a different "
               "array type (matrix, list, float32), alpha given per cell, dt given as numpy scalar, a variable that is solved twice in a row without anything changed, "
               "solveExplicitPDE with a RHS that is a list / a column vector / a view, non-contiguous arrays, Fortran-ordered arrays."),
    'bc': ("This round is about BOUNDARY-CONDITION HANDLING: each change must be invisible for the boundary conditions most examples use (default no-flux, a scalar "
           "Dirichlet value set with fixedValue on left/right) and manifest only for a legitimate but rarer configuration - Robin conditions with both a and b non-zero and "
           "of either sign, face-wise (array-valued, non-constant) a, b or c, the utility methods fixedGradient(value, scale_coeffs=...) / newtonCooling(k, h, T_inf, "
           "reverse_direction=...) / defaultNoFlux(), inhomogeneous Neumann data, conditions on bottom/top/back/front rather than left/right, different kinds on the two "
           "sides of one axis, periodic on one axis combined with Robin on another, a periodic flag set on one side only, boundary data changed between time steps, "
           "(a, b, c) multiplied by a common factor (also negative), conditions on the high side of an axis vs the low side, corner cells where two non-trivial boundaries "
           "meet. Typical culprits: a sign that is only right on the low side, a width or metric factor taken from the wrong end, an index into the coefficient array that "
           "assumes a scalar, a utility method that forgets one coefficient, a side name mapped to the wrong axis."),
    'geometry': ("This round is about SPECIAL BUT LEGITIMATE GEOMETRY: each change must be invisible on ordinary grids and manifest only for a grid that is "
                 "unusual yet perfectly valid - a domain that starts exactly at r = 0, touches theta = 0 or theta = pi, spans exactly 2*pi (or deliberately less), has a single "
                 "cell or exactly two cells along an axis, has extremely elongated or extremely graded cells (ratio 1e6 between neighbours), lies at negative coordinates "
                 "(x from -5 to -1) or at a large offset (x in [1e6, 1e6 + 1]: cancellation), is built with the (N, L) form vs the face-position form, has very many "
                 "cells along one axis and one along another, or whose first and last cells differ strongly. Typical culprits: an index that is only right for N >= 2 or "
                 "N >= 3, a metric factor taken at the wrong end cell, a formula that divides by r or sin(theta) without need, a difference of large numbers, an 'is it "
                 "uniform?' or 'is it the axis?' test with a tolerance."),
    'hard': ("This round is about HARD-TO-SEE defects: at least one of your two changes must be of the kind 'two cooperating sites that each look fine alone' "
             "(e.g. a cache or flag introduced in one function and not invalidated in another; a helper whose contract is changed subtly and one caller not updated; an "
             "optimisation that is only valid for uniform grids / equal end cells / N>=2 / positive velocities and silently used otherwise), or 'needs a multi-step sequence "
             "of public API calls to manifest' (second call, second time step, call order, reuse of an object), or 'small but systematic numerical error' (e.g. a weight 0.5 "
             "where the width-weighted value is needed, visible only on strongly non-uniform grids; a metric factor evaluated at the face instead of the cell centre). Avoid "
             "crude changes whose effect is an O(1) error on every input."),
    'inputs': ("This round is about UNUSUAL BUT VALID INPUTS: each change must be invisible for ordinary inputs and manifest only for an input class that is documented or "
               "obviously legitimate yet rarely exercised - e.g. integer or boolean arrays / python lists / 0-d arrays / numpy scalars where floats are usual, a grid built "
               "from (N, L) vs from face positions, a single cell along an axis, a domain that starts at r = 0 or touches theta = 0 / pi or spans exactly 2*pi, very small or "
               "very large physical units (nanometres, gigaseconds), negative or zero coefficients where allowed, face-wise (array-valued) boundary coefficients vs scalars, "
               "a boundary condition set through a utility method vs through a/b/c, a periodic flag on one side only, arguments passed by keyword or in the documented "
               "alternative order, values that are exactly equal / exactly zero / exactly opposite. A typical culprit: np.isclose / np.allclose with default absolute "
               "tolerances, `if x:` on arrays or zeros, integer division or integer dtype propagation, `==` on floats, a shape shortcut valid only for scalars."),
    'api': ("This round is about the DOCUMENTED USAGE PATTERNS of the library (see the notebooks under docs/ and the examples/tests for how users really drive it: time loops "
            "with update_value(), old/new variable pairs, terms built once and reused, boundary conditions changed between steps, variables created by arithmetic, copies, "
            "solveMatrixPDE with hand-assembled terms, explicit loops, external solvers). Each change must leave every single call correct in isolation on a fresh object "
            "and break the property only through a realistic SEQUENCE of calls (state, caching, aliasing, flags, object reuse, ordering)."),
}


def sh(cmd):
    return subprocess.run(cmd, shell=True, capture_output=True, text=True)


def main():
    pid, rnd = sys.argv[1], sys.argv[2]
    emph = sys.argv[3] if len(sys.argv) > 3 else 'hard'
    wt = '/tmp/wt%s_%s' % (rnd, pid)
    if not os.path.exists(wt):
        r = sh('git -C /repo worktree add -q --detach %s HEAD' % wt)
        assert r.returncode == 0, r.stderr
    prop = None
    for line in open(os.path.join(HERE, 'properties.jsonl')):
        d = json.loads(line)
        if d['id'] == pid:
            prop = d
    text = '%s: %s\n\nStatement: %s\n' % (pid, prop.get('title', ''), prop.get('statement', prop.get('text', '')))
    for k in ('quantifier', 'scope'):
        if prop.get(k):
            v = prop[k]
            text += '\n%s: %s\n' % (k.capitalize(), v.get('text', v) if isinstance(v, dict) else v)
    open(os.path.join(wt, 'PROPERTY.txt'), 'w').write(text)
    earlier = []
    for d in sorted(glob.glob(os.path.join(HERE, 'seeded', pid + '-*'))):
        n = os.path.join(d, 'notes.md')
        if os.path.exists(n):
            lines = [l.strip() for l in open(n).read().splitlines() if l.strip()]
            earlier.append('   - ' + ' / '.join(lines[:2])[:260])
    prompt = f"""You are helping test a verification harness by mutation. You work ONLY inside the scratch git worktree {wt} (a checkout of the Python library PyFVTool: pure-Python finite-volume toolbox; sources in {wt}/src/pyfvtool, tests in {wt}/tests). Do not touch /repo or /verif and do not read anything under /verif. Do not commit anything.

The property under test is in {wt}/PROPERTY.txt:

---
{text}
---

TASK: produce TWO different, realistic source changes (mutations) to the library under {wt}/src/pyfvtool, each of which BREAKS this property while the library still imports and the existing test suite still passes. Think "a plausible bug a maintainer could introduce in a refactor or an optimisation". The two changes must have different mechanisms (different functions/sites). Prefer changes that need something SPECIFIC to manifest, NOT changes that any ordinary use would expose at once (do not break Grid1D uniform basics that every example exercises).

How to run things (the venv has numpy/scipy/pytest; the library is imported from your worktree by setting PYTHONPATH):
  cd {wt} && PYTHONPATH={wt}/src /venv/bin/python -m pytest -q -p no:cacheprovider --timeout=900 --continue-on-collection-errors
Baseline result on the unchanged tree: "48 passed, 1 error" (the 1 error is a collection error of tests/test_oneMKL_PARDISO_interface.py because MKL is absent - that is expected and must stay exactly like that). With each of your changes applied the result must still be 48 passed, 1 error.
Always check that `PYTHONPATH={wt}/src /venv/bin/python -c "import pyfvtool; print(pyfvtool.__file__)"` prints a path inside {wt}.

For each change k in (1, 2) deliver, in the directory {wt}/_out/ (create it):
  - mutation{{k}}.diff : output of `git -C {wt} diff -- src` with ONLY that change applied (so that `git apply mutation{{k}}.diff` on a clean tree reproduces it). Make sure the two diffs are independent (restore the tree with `git -C {wt} checkout -- src` between them).
  - demo{{k}}.py : a small standalone program (uses only numpy/scipy/pyfvtool; run as `PYTHONPATH=<tree>/src /venv/bin/python demo{{k}}.py`) that demonstrates the broken property: it must exit with status 0 on the unchanged tree and with a non-zero status (assert/exit code) when the change is applied. The demo should check the property itself, with a tolerance that separates rounding from the defect clearly.
  - notes{{k}}.md : 5-15 lines: which file/function/line you changed, why it breaks the property, what specific condition is needed for it to manifest, and the exact commands you ran with their observed results (tests with the change: pass counts; demo without the change: exit 0; demo with the change: non-zero).
At the end leave the worktree sources restored to the unchanged state (`git -C {wt} checkout -- src`) and verify `git -C {wt} status --short` shows only untracked files (_out/, PROPERTY.txt).

Verify everything yourself by actually running it; do not guess. If a change you try makes an existing test fail, pick a different change. Your final message should list, for each change, one line describing it and the verification results.

ADDITIONAL CONSTRAINTS FOR THIS ROUND: (1) NEVER use `git stash`, and never use `pkill`/`killall` (other agents share this machine). (2) {len(earlier)} changes already exist for this property (listed below); yours must be DIFFERENT in site and mechanism. (3) {EMPHASIS[emph]}
Earlier changes for this property:
""" + '\n'.join(earlier) + '\n'
    out = '/tmp/prompt%s_%s.txt' % (rnd, pid)
    open(out, 'w').write(prompt)
    print(out)


if __name__ == '__main__':
    main()
