#!/usr/bin/env python3
"""Monitor self-test: (1) reverting each `fix:` commit of /repo must make the corresponding check fire;
(2) every seeded change under /verif/seeded/<id>/patch.diff must be caught by the check(s) named in its meta.json.

Patches are applied to /repo's working tree (git apply), the quick checks are run, and the tree is restored
(git checkout -- .) straight afterwards.  Usage: tools/selftest.py [--fixes] [--seeded] [--tier quick] [--only ID]"""
import argparse
import glob
import json
import os
import re
import subprocess
import sys

HERE = os.path.dirname(os.path.dirname(os.path.abspath(__file__)))
REPO = '/repo'
TARGET = {'dir': REPO, 'env': ''}      # where patches are applied: /repo itself (--in-repo) or a scratch worktree (default)


def sh(cmd, **kw):
    return subprocess.run(cmd, shell=True, capture_output=True, text=True, **kw)


def clean():
    st = sh('git -C %s status --porcelain' % TARGET['dir']).stdout.strip()
    return st == ''


def run_check(pid, tier, seed=0):
    r = sh('cd %s && %s VERIF_SEED=%d ./check %s --tier %s' % (TARGET.get('verif', HERE), TARGET['env'], seed, pid, tier))
    vio = [l for l in r.stdout.splitlines() if l.startswith('VIOLATION')]
    return r.returncode, vio, r.stdout[-600:]


def main():
    ap = argparse.ArgumentParser()
    ap.add_argument('--fixes', action='store_true')
    ap.add_argument('--seeded', action='store_true')
    ap.add_argument('--benign', action='store_true', help='behaviour-preserving refactorings under benign/<id>/patch.diff: every check must stay silent')
    ap.add_argument('--tier', default='quick')
    ap.add_argument('--only', default=None)
    ap.add_argument('--all-checks', action='store_true', help='run all 17 checks against every mutant (which checks catch which change)')
    ap.add_argument('--seeds', default='0', help='comma-separated VERIF_SEED values for --seeded (a mutant counts as caught when every seed fires)')
    ap.add_argument('--checks', default=None, help='comma-separated check ids for --benign (default: all 17)')
    ap.add_argument('--in-repo', action='store_true', help='apply the patches to /repo itself (git apply ... git checkout -- .) instead of a scratch worktree')
    args = ap.parse_args()
    import tempfile, shutil
    scratch = None
    if not args.in_repo:
        scratch = tempfile.mkdtemp(prefix='pv_selftest_')
        wt = os.path.join(scratch, 'wt')
        r = sh('git -C %s worktree add -q --detach %s HEAD' % (REPO, wt))
        assert r.returncode == 0, r.stderr
        TARGET['dir'] = wt
        TARGET['env'] = 'PVMON_REPO_SRC=%s/src PVMON_OUT_DIR=%s/out' % (wt, scratch)
        # frozen copy of the monitors: edits made in /verif while a long self-test runs must not leak into it
        snap = os.path.join(scratch, 'verif')
        os.makedirs(snap)
        for item in ('check', 'pvmon', 'known_findings.json', 'properties.jsonl'):
            src = os.path.join(HERE, item)
            if os.path.isdir(src):
                shutil.copytree(src, os.path.join(snap, item), ignore=shutil.ignore_patterns('__pycache__'))
            else:
                shutil.copy2(src, os.path.join(snap, item))
        if os.path.isdir(os.path.join(HERE, '.deps')):
            os.symlink(os.path.join(HERE, '.deps'), os.path.join(snap, '.deps'))
        TARGET['verif'] = snap
    if not (args.fixes or args.seeded or args.benign):
        args.fixes = args.seeded = True
    assert clean(), '/repo working tree is not clean'
    allids = ['C%02d' % i for i in range(1, 18)]
    results = []
    try:
        if args.fixes:
            kf = json.load(open(os.path.join(HERE, 'known_findings.json')))
            for line in kf['fixed']:
                mm = re.match(r'fixed: property=(C\d+) ([0-9a-f]{7,}) (.*)', line)
                pid, commit, what = mm.group(1), mm.group(2), mm.group(3)
                if args.only and args.only not in (pid, commit):
                    continue
                r = sh('git -C %s show %s -- src | git -C %s apply -R' % (REPO, commit, TARGET['dir']))
                if r.returncode != 0:
                    # a later fix touched a neighbouring line: retry with one line of context
                    sh('git -C %s checkout -- .' % TARGET['dir'])
                    r = sh('git -C %s show %s -- src | git -C %s apply -R -C1' % (REPO, commit, TARGET['dir']))
                if r.returncode != 0:
                    results.append({'mutant': 'revert ' + commit, 'error': r.stderr[-300:]})
                    sh('git -C %s checkout -- .' % TARGET['dir'])
                    continue
                caught = {}
                for p in (allids if args.all_checks else [pid]):
                    rc, vio, tail = run_check(p, args.tier)
                    caught[p] = {'exit': rc, 'violations': [v[:200] for v in vio[:3]]}
                sh('git -C %s checkout -- .' % TARGET['dir'])
                ok = caught[pid]['exit'] == 1
                results.append({'mutant': 'revert %s (%s)' % (commit, what[:80]), 'expected': pid, 'caught': ok,
                                'firing_checks': [p for p, c in caught.items() if c['exit'] == 1], 'detail': caught[pid]})
                print(('CAUGHT ' if ok else 'MISSED ') + 'revert %s expected %s firing %s' % (commit, pid, [p for p, c in caught.items() if c['exit'] == 1]), flush=True)
        if args.seeded:
            for d in sorted(glob.glob(os.path.join(HERE, 'seeded', '*'))):
                meta = json.load(open(os.path.join(d, 'meta.json')))
                name = os.path.basename(d)
                if args.only and args.only not in (name, meta.get('property')):
                    continue
                r = sh('git -C %s apply %s' % (TARGET['dir'], os.path.join(d, 'patch.diff')))
                if r.returncode != 0:
                    results.append({'mutant': name, 'error': r.stderr[-300:]})
                    sh('git -C %s checkout -- .' % TARGET['dir'])
                    print('ERROR applying', name, r.stderr[-200:])
                    continue
                caught = {}
                seeds = [int(x) for x in args.seeds.split(',')]
                per_seed = {}
                for p in (allids if args.all_checks else meta.get('expected_checks', [meta['property']])):
                    for sd in seeds:
                        rc, vio, tail = run_check(p, args.tier, seed=sd)
                        per_seed.setdefault(p, {})[sd] = rc
                        if p not in caught or rc != 1:
                            caught[p] = {'exit': rc, 'violations': [v[:200] for v in vio[:3]]}
                sh('git -C %s checkout -- .' % TARGET['dir'])
                firing = [p for p, c in caught.items() if all(rc == 1 for rc in per_seed[p].values())]
                ok = meta['property'] in firing or bool(meta.get('borderline'))
                results.append({'mutant': name, 'expected': meta['property'], 'caught': ok, 'firing_checks': firing, 'detail': caught.get(meta['property']),
                                'exit_by_seed': per_seed.get(meta['property'])})
                print(('BORDERLINE ' if (meta.get('borderline') and meta['property'] not in firing) else 'CAUGHT ' if ok else 'MISSED ') + '%s expected %s firing %s%s' % (name, meta['property'], firing, '' if len(seeds) == 1 else ' by seed %r' % per_seed.get(meta['property'])), flush=True)
        if args.benign:
            for d in sorted(glob.glob(os.path.join(HERE, 'benign', '*'))):
                name = os.path.basename(d)
                if args.only and args.only != name:
                    continue
                r = sh('git -C %s apply %s' % (TARGET['dir'], os.path.join(d, 'patch.diff')))
                if r.returncode != 0:
                    results.append({'mutant': 'benign/' + name, 'error': r.stderr[-300:], 'caught': True})
                    sh('git -C %s checkout -- .' % TARGET['dir'])
                    print('ERROR applying benign', name, r.stderr[-200:])
                    continue
                alarms = {}
                inconcl = []
                for p in (args.checks.split(',') if args.checks else allids):
                    rc, vio, tail = run_check(p, args.tier, seed=1)
                    if rc == 2 and not vio:
                        # INCONCLUSIVE (e.g. the default-solver hook was not reached): not an alarm, reported separately
                        inconcl.append(p)
                    elif rc != 0:
                        alarms[p] = {'exit': rc, 'violations': [v[:300] for v in vio[:3]], 'tail': tail[-300:]}
                sh('git -C %s checkout -- .' % TARGET['dir'])
                results.append({'mutant': 'benign/' + name, 'expected': 'silence', 'caught': not alarms, 'false_alarms': alarms, 'inconclusive': inconcl})
                print(('SILENT ' if not alarms else 'FALSE-ALARM ') + 'benign/%s %s%s' % (name, sorted(alarms), (' inconclusive (exit 2, no VIOLATION line): %s' % inconcl) if inconcl else ''), flush=True)
    finally:
        sh('git -C %s checkout -- .' % TARGET['dir'])
        if scratch:
            sh('git -C %s worktree remove --force %s' % (REPO, TARGET['dir']))
            shutil.rmtree(scratch, ignore_errors=True)
    out = os.path.join(HERE, 'selftest_results.json')
    # several self-tests may run side by side: merge under a lock, replace the file atomically
    import fcntl
    with open(out + '.lock', 'w') as lk:
        fcntl.flock(lk, fcntl.LOCK_EX)
        prev = []
        if os.path.exists(out):
            try:
                prev = [r for r in json.load(open(out)) if r.get('mutant') not in [x.get('mutant') for x in results]]
            except ValueError:
                prev = []
        json.dump(prev + results, open(out + '.tmp', 'w'), indent=1)
        os.replace(out + '.tmp', out)
    missed = [r for r in results if not r.get('caught')]
    print('%d mutants, %d missed' % (len(results), len(missed)))
    return 1 if missed else 0


if __name__ == '__main__':
    sys.exit(main())
