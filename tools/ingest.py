#!/usr/bin/env python3
"""Confirm a sub-agent's seeded change in a scratch worktree of /repo and store it as /verif/seeded/<id>/.

For <wt>/_out/mutation{k}.diff + demo{k}.py + notes{k}.md:
  1. fresh scratch worktree of /repo HEAD (outside /repo and /verif), demo on the unchanged tree must exit 0;
  2. the diff must apply; `import pyfvtool` must work; the demo must exit non-zero;
  3. the repository's test-suite must give 48 passed (and the one known MKL collection error) with the change;
  4. store patch.diff, demo.py, notes.md, meta.json; remove the scratch worktree.
Usage: tools/ingest.py C05 [k ...]"""
import json
import os
import re
import shutil
import subprocess
import sys
import tempfile

HERE = os.path.dirname(os.path.dirname(os.path.abspath(__file__)))


def sh(cmd, **kw):
    return subprocess.run(cmd, shell=True, capture_output=True, text=True, **kw)


def ingest(pid, k, prefix='/tmp/wt_', offset=0):
    src = '%s%s/_out' % (prefix, pid)
    diff, demo, notes = [os.path.join(src, f % k) for f in ('mutation%d.diff', 'demo%d.py', 'notes%d.md')]
    kid = k + offset
    if not (os.path.exists(diff) and os.path.exists(demo)):
        return {'id': '%s-%d' % (pid, kid), 'ok': False, 'why': 'missing files'}
    wt = tempfile.mkdtemp(prefix='pv_ingest_')
    os.rmdir(wt)
    res = {'id': '%s-%d' % (pid, kid), 'ok': False}
    try:
        r = sh('git -C /repo worktree add -q --detach %s HEAD' % wt)
        if r.returncode:
            res['why'] = 'worktree: ' + r.stderr[-200:]
            return res
        env = 'PYTHONPATH=%s/src OMP_NUM_THREADS=1' % wt
        r0 = sh('cd %s && %s /venv/bin/python %s' % (wt, env, demo), timeout=900)
        res['demo_clean_exit'] = r0.returncode
        r = sh('git -C %s apply %s' % (wt, diff))
        if r.returncode:
            res['why'] = 'diff does not apply: ' + r.stderr[-300:]
            return res
        r1 = sh('cd %s && %s /venv/bin/python %s' % (wt, env, demo), timeout=900)
        res['demo_mutant_exit'] = r1.returncode
        res['demo_mutant_tail'] = (r1.stdout + r1.stderr)[-400:]
        rt = sh('cd %s && %s /venv/bin/python -m pytest -q -p no:cacheprovider --timeout=900 --continue-on-collection-errors 2>&1 | tail -3' % (wt, env), timeout=3600)
        res['tests_tail'] = rt.stdout.strip()[-200:]
        mm = re.search(r'(\d+) passed', rt.stdout)
        res['tests_passed'] = int(mm.group(1)) if mm else 0
        res['tests_failed'] = bool(re.search(r'\d+ failed', rt.stdout))
        res['ok'] = (r0.returncode == 0 and r1.returncode != 0 and res['tests_passed'] == 48 and not res['tests_failed'])
        if res['ok']:
            d = os.path.join(HERE, 'seeded', '%s-%d' % (pid, kid))
            os.makedirs(d, exist_ok=True)
            shutil.copy(diff, os.path.join(d, 'patch.diff'))
            shutil.copy(demo, os.path.join(d, 'demo.py'))
            if os.path.exists(notes):
                shutil.copy(notes, os.path.join(d, 'notes.md'))
            files = sh('git -C %s diff --stat -- src | head -5' % wt).stdout
            meta = {'property': pid, 'source': 'independent sub-agent given only the property text and a scratch worktree',
                    'needs_to_manifest': open(notes).read()[:1500] if os.path.exists(notes) else '',
                    'files_changed': files.strip(),
                    'confirmed': {'demo_exit_unchanged_tree': r0.returncode, 'demo_exit_with_change': r1.returncode,
                                  'test_suite_with_change': res['tests_tail'],
                                  'how': 'tools/ingest.py: fresh scratch worktree of /repo HEAD, git apply patch.diff, PYTHONPATH=<wt>/src /venv/bin/python demo.py, pytest -q --continue-on-collection-errors'},
                    'expected_checks': [pid]}
            json.dump(meta, open(os.path.join(d, 'meta.json'), 'w'), indent=1)
        else:
            res['why'] = 'confirmation failed'
    except Exception as e:
        res['why'] = '%s: %s' % (type(e).__name__, e)
    finally:
        sh('git -C /repo worktree remove --force %s' % wt)
        shutil.rmtree(wt, ignore_errors=True)
    return res


if __name__ == '__main__':
    pid = sys.argv[1]
    prefix, offset = '/tmp/wt_', 0
    rest = sys.argv[2:]
    if rest and rest[0] == '--round2':
        prefix, offset, rest = '/tmp/wt2_', 2, rest[1:]
    if rest and rest[0] == '--round3':
        prefix, offset, rest = '/tmp/wt3_', 4, rest[1:]
    if rest and rest[0] == '--round4':
        prefix, offset, rest = '/tmp/wt4_', 6, rest[1:]
    if rest and rest[0] == '--round13':
        prefix, offset, rest = '/tmp/wt13_', 24, rest[1:]
    if rest and rest[0] == '--round12':
        prefix, offset, rest = '/tmp/wt12_', 22, rest[1:]
    if rest and rest[0] == '--round11':
        prefix, offset, rest = '/tmp/wt11_', 20, rest[1:]
    if rest and rest[0] == '--round10':
        prefix, offset, rest = '/tmp/wt10_', 18, rest[1:]
    if rest and rest[0] == '--round9':
        prefix, offset, rest = '/tmp/wt9_', 16, rest[1:]
    if rest and rest[0] == '--round8':
        prefix, offset, rest = '/tmp/wt8_', 14, rest[1:]
    if rest and rest[0] == '--round7':
        prefix, offset, rest = '/tmp/wt7_', 12, rest[1:]
    if rest and rest[0] == '--round6':
        prefix, offset, rest = '/tmp/wt6_', 10, rest[1:]
    if rest and rest[0] == '--round5':
        prefix, offset, rest = '/tmp/wt5_', 8, rest[1:]
    ks = [int(x) for x in rest] or [1, 2]
    for k in ks:
        print(json.dumps(ingest(pid, k, prefix, offset)), flush=True)
