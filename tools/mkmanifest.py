#!/usr/bin/env python3
"""Regenerates MANIFEST.json from the table below (keeps it schema-valid at all times)."""
import json, os, sys
HERE = os.path.dirname(os.path.dirname(os.path.abspath(__file__)))
sys.path.insert(0, HERE)
from tools.manifest_table import CHECKS, NOT_APPLICABLE

BASE = ("cd /repo && /venv/bin/python -m pytest -ra -q -p no:cacheprovider --timeout=900 "
        "--continue-on-collection-errors")
man = {
    "version": 1,
    "setup_cmd": "./setup.sh",
    "hooks": {
        "guard": "PYFVTOOL_VERIF",
        "enable": "no instrumentation lives in /repo: ./check exports PYFVTOOL_VERIF=1 and puts /repo/src first on PYTHONPATH; the "
                  "monitor layer (pvmon.install) wraps pyfvtool's public functions from outside at import time, the assembled "
                  "system is observed through the documented externalsolver= argument (spy solver)",
        "baseline_off_cmd": BASE,
        "source_commits": [],
        "add_only": True,
    },
    "engines": [{"name": "pvmon", "path": "pvmon/", "serves_properties": [c["id"] for c in CHECKS],
                 "kind_free_text": "runtime monitoring: seeded workloads executing the real pyfvtool from /repo/src under "
                                   "online post-condition monitors, history-vs-reference-model checkers and a spy linear solver"}],
    "checks": [],
    "not_applicable": NOT_APPLICABLE,
    "notes": "All checks: exit 0 held / exit 1 VIOLATION (unlisted) / exit 2 INCONCLUSIVE (coverage floor unmet or harness problem). "
             "Known findings: known_findings.json (keyed by mechanism). VERIF_SEED and VERIF_TIER honoured. See DESIGN.md.",
}
for c in CHECKS:
    man["checks"].append({
        "property_id": c["id"],
        "quick_cmd": "./check %s --tier quick" % c["id"],
        "thorough_cmd": "./check %s --tier thorough" % c["id"],
        "evidence_file": "evidence/%s.json" % c["id"],
        "replay_cmd_template": "./check %s --replay {path}" % c["id"],
        "engine": "pvmon",
        "level_claimed": {"category": "exploration", "text": c["text"], "design_ref": c["ref"]},
        "level_note": c["note"],
        "technique": c["technique"],
    })
with open(os.path.join(HERE, "MANIFEST.json"), "w") as f:
    json.dump(man, f, indent=1)
print("MANIFEST.json written:", len(man["checks"]), "checks,", len(NOT_APPLICABLE), "not applicable")
