#!/usr/bin/env python3
"""Confirm a behaviour-preserving refactoring written by a sub-agent and store it under /verif/benign/<id>/.
Confirmation in a fresh scratch worktree of /repo HEAD: the diff applies, the agent's equivalence program (which compares the
refactored library with an untouched copy of the original at 1e-12) exits 0, the repository's tests still give 48 passed."""
import json, os, re, shutil, subprocess, sys, tempfile
HERE = os.path.dirname(os.path.dirname(os.path.abspath(__file__)))


def sh(cmd, **kw):
    return subprocess.run(cmd, shell=True, capture_output=True, text=True, **kw)


def ingest(i, k):
    src = '/tmp/wtr_%d/_out' % i
    diff, equiv, notes = [os.path.join(src, f % k) for f in ('refactor%d.diff', 'equiv%d.py', 'notes%d.md')]
    name = 'R%d-%d' % (i, k)
    res = {'id': name, 'ok': False}
    if not os.path.exists(diff):
        res['why'] = 'missing diff'
        return res
    wt = tempfile.mkdtemp(prefix='pv_benign_')
    os.rmdir(wt)
    try:
        sh('git -C /repo worktree add -q --detach %s HEAD' % wt)
        r = sh('git -C %s apply %s' % (wt, diff))
        if r.returncode:
            res['why'] = 'diff does not apply: ' + r.stderr[-200:]
            return res
        env = 'PYTHONPATH=%s/src OMP_NUM_THREADS=1' % wt
        # the agent's equivalence program expects to run inside its own worktree layout: run it there against our fresh tree
        re_ = sh('cd /tmp/wtr_%d && %s /venv/bin/python %s' % (i, env, equiv), timeout=1800) if os.path.exists(equiv) else None
        res['equiv_exit'] = re_.returncode if re_ else None
        rt = sh('cd %s && %s /venv/bin/python -m pytest -q -p no:cacheprovider --timeout=900 --continue-on-collection-errors 2>&1 | tail -3' % (wt, env), timeout=3600)
        mm = re.search(r'(\d+) passed', rt.stdout)
        res['tests_passed'] = int(mm.group(1)) if mm else 0
        res['tests_failed'] = bool(re.search(r'\d+ failed', rt.stdout))
        res['ok'] = res['tests_passed'] == 48 and not res['tests_failed'] and (res['equiv_exit'] in (0, None))
        if res['ok']:
            d = os.path.join(HERE, 'benign', name)
            os.makedirs(d, exist_ok=True)
            shutil.copy(diff, os.path.join(d, 'patch.diff'))
            if os.path.exists(equiv):
                shutil.copy(equiv, os.path.join(d, 'equiv.py'))
            if os.path.exists(notes):
                shutil.copy(notes, os.path.join(d, 'notes.md'))
            json.dump({'kind': 'behaviour-preserving refactoring (every check must stay silent)',
                       'what': open(notes).read()[:1200] if os.path.exists(notes) else '',
                       'confirmed': {'equiv_exit': res['equiv_exit'], 'tests': rt.stdout.strip()[-120:],
                                     'how': 'tools/ingest_benign.py in a fresh scratch worktree of /repo HEAD'}},
                      open(os.path.join(d, 'meta.json'), 'w'), indent=1)
    except Exception as e:
        res['why'] = '%s: %s' % (type(e).__name__, e)
    finally:
        sh('git -C /repo worktree remove --force %s' % wt)
        shutil.rmtree(wt, ignore_errors=True)
    return res


if __name__ == '__main__':
    i = int(sys.argv[1])
    for k in (1, 2, 3):
        print(json.dumps(ingest(i, k)), flush=True)
