#!/usr/bin/env python3
"""Re-confirm stored seeded changes against the CURRENT /repo HEAD (after a fix: commit a patch may no longer apply, or the
change may no longer break its property): demo exits 0 on the unchanged tree, patch applies, demo exits non-zero with it.
Usage: tools/reconfirm.py [ID ...]   (default: all)"""
import glob
import os
import shutil
import subprocess
import sys
import tempfile

HERE = os.path.dirname(os.path.dirname(os.path.abspath(__file__)))


def sh(cmd, **kw):
    return subprocess.run(cmd, shell=True, capture_output=True, text=True, **kw)


def main():
    ids = sys.argv[1:] or sorted(os.path.basename(d) for d in glob.glob(os.path.join(HERE, 'seeded', '*')))
    wt = tempfile.mkdtemp(prefix='pv_reconf_')
    os.rmdir(wt)
    assert sh('git -C /repo worktree add -q --detach %s HEAD' % wt).returncode == 0
    bad = 0
    try:
        for i in ids:
            d = os.path.join(HERE, 'seeded', i)
            env = 'PYTHONPATH=%s/src OMP_NUM_THREADS=1' % wt
            r0 = sh('cd %s && %s /venv/bin/python %s/demo.py' % (wt, env, d), timeout=900)
            ra = sh('git -C %s apply %s/patch.diff' % (wt, d))
            r1 = sh('cd %s && %s /venv/bin/python %s/demo.py' % (wt, env, d), timeout=900) if ra.returncode == 0 else None
            sh('git -C %s checkout -- .' % wt)
            ok = r0.returncode == 0 and ra.returncode == 0 and r1.returncode != 0
            bad += not ok
            print('%s %s clean=%d apply=%d mutant=%s' % ('OK  ' if ok else 'STALE', i, r0.returncode, ra.returncode, r1.returncode if r1 else '-'), flush=True)
    finally:
        sh('git -C /repo worktree remove --force %s' % wt)
        shutil.rmtree(wt, ignore_errors=True)
        sh('git -C /repo worktree prune')
    return 1 if bad else 0


if __name__ == '__main__':
    sys.exit(main())
