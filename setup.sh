#!/usr/bin/env bash
# Offline setup: install the contract libraries beside the repo's interpreter (into /verif/.deps),
# byte-compile pvmon, smoke-import pyfvtool from /repo/src.
set -u
cd "$(dirname "$0")"
export PIP_NO_INDEX=1
if [ ! -d .deps/icontract ]; then
  /venv/bin/pip install --quiet --no-index --find-links /opt/veriftools/wheels --target .deps icontract deal \
    || echo "setup: icontract/deal install failed; wrapper-assertion fallback will be used" >&2
fi
/venv/bin/python -B - <<'PY'
import sys
sys.path[:0] = ['/repo/src', '.', '.deps']
import pyfvtool, os
assert os.path.realpath(pyfvtool.__file__).startswith('/repo/src/'), pyfvtool.__file__
import pvmon
try:
    import icontract
    print('setup: icontract', icontract.__version__)
except Exception as e:
    print('setup: icontract unavailable:', e)
print('setup: ok, pyfvtool', pyfvtool.__version__)
PY
