"""Shared monitor helpers: spy solver, normalised identity error, digests."""
import hashlib

import numpy as np
import scipy.sparse as sp
from scipy.sparse.linalg import spsolve

TOL = 1e-9          # normalised identity error accepted as rounding (defects give 1e-3 .. 1e+1)


class SpySolver:
    """External solver with the interface of scipy.sparse.linalg.spsolve that records the
    system handed over by solvePDE (the documented `externalsolver=` boundary)."""

    def __init__(self, returns='array'):
        self.calls = []
        self.returns = returns         # what the external solver hands back: 1-D array (usual), python list, column vector

    def __call__(self, M, RHS):
        Mc = sp.csr_array(M).copy()
        bc = np.array(RHS, dtype=float, copy=True)
        x = spsolve(Mc.tocsc(), bc)
        self.calls.append((Mc, bc, np.array(x, copy=True)))
        if self.returns == 'list':
            return [float(v) for v in x]
        if self.returns == 'column':
            return np.asarray(x).reshape(-1, 1)
        return x

    def as_default(self, M, RHS):
        """stand-in for the module-level spsolve of pyfvtool.pdesolver (see solve_with): records the system and lets the
        ORIGINAL default solver solve the very objects it was given"""
        Mc = sp.csr_array(M).copy()
        bc = np.array(RHS, dtype=float, copy=True)
        x = self._orig(M, RHS)
        self.calls.append((Mc, bc, np.array(x, copy=True)))
        return x

    @property
    def last(self):
        return self.calls[-1]


class HookNotReached(Exception):
    pass


def solve_with(pf, spy, phi, terms, default_path=False, allow_outside=False):
    """solvePDE observed by the spy: either through the documented externalsolver= boundary, or - default_path - with NO external
    solver, the library's own default-solver branch being executed and observed by temporarily replacing the name it resolves
    (pyfvtool.pdesolver.spsolve). A default branch that no longer calls that name leaves the spy without a record: HookNotReached
    (inconclusive, exit 2), never a silent pass."""
    if not default_path:
        return pf.solvePDE(phi, terms, externalsolver=spy)
    import pyfvtool.pdesolver as ps
    n0 = len(spy.calls)
    spy._orig = ps.spsolve
    ps.spsolve = spy.as_default
    try:
        ret = pf.solvePDE(phi, terms)
    finally:
        ps.spsolve = spy._orig
    if len(spy.calls) == n0 and not allow_outside:
        # (observation from outside is only used by monitors that look at interior rows of well-conditioned systems, C12 `refresh`:
        # with it, a refactoring that merely resolves the default solver differently - benign R9-1 - produced rounding-level alarms
        # in C08 / C12's bit-exact clauses; everywhere else an unreached hook is INCONCLUSIVE, exit 2, never an alarm)
        raise HookNotReached('solvePDE without an external solver did not call pyfvtool.pdesolver.spsolve')
    if len(spy.calls) == n0:
        # the default branch did not go through the name we replaced (another driver, a factorisation kept between calls, ...):
        # observe it from outside instead. The system solvePDE assembles depends on the term list and on the variable's boundary
        # conditions only, so a copy of the variable solved through the documented externalsolver= boundary records the same
        # (M, b); the answer of the default branch is what it left in the variable. Only if that fails too is the run inconclusive.
        try:
            twin = phi.copy()
            pf.solvePDE(twin, terms, externalsolver=spy)
        except Exception:
            pass
        if len(spy.calls) == n0:
            raise HookNotReached('solvePDE without an external solver did not call pyfvtool.pdesolver.spsolve')
        # the interior values are the default branch's answer; the ghost unknowns are taken from the solution of the recorded system
        # (the variable reports RE-IMPOSED boundary values, which are not the solver's unknowns: on a periodic seam with unequal
        # end cells they do not even satisfy the periodic rows - the known C03 finding - and must not leak into other checks)
        Mc, bc, x_t = spy.calls[-1]
        x_obs = np.array(x_t, dtype=float, copy=True)
        rows_ = interior_index(tuple(int(n_) for n_ in phi.domain.dims))
        x_obs[rows_] = np.asarray(phi.value, dtype=float).ravel()
        spy.calls[-1] = (Mc, bc, x_obs)
        spy.observed_from_outside = getattr(spy, 'observed_from_outside', 0) + 1
    return ret


def nerr(lhs, rhs, scale):
    """max over entries of |lhs-rhs|/scale with scale floored to avoid 0/0 (entries where both
    sides and the scale are exactly 0 contribute 0)."""
    lhs = np.asarray(lhs, dtype=float)
    rhs = np.asarray(rhs, dtype=float)
    scale = np.asarray(scale, dtype=float)
    d = np.abs(lhs - rhs)
    bad = ~np.isfinite(d)
    if np.any(bad):
        return float('inf')
    s = np.where(scale > 0, scale, 1.0)
    e = np.where(d == 0, 0.0, d / s)
    # where scale == 0 but d != 0 -> infinite relative error
    e = np.where((scale <= 0) & (d != 0), np.inf, e)
    return float(e.max()) if e.size else 0.0


def absmv(M, x):
    M = sp.csr_array(M)
    A = M.copy()
    A.data = np.abs(A.data)
    return A @ np.abs(np.asarray(x, dtype=float).ravel())


def residual_err(M, x, b, rows=None, solver_output=False, solved=None):
    """normalised residual of M x = b, row by row: |Mx-b| / (|M||x| + |b|).

    solver_output=True: x is the output of a direct sparse solve.  Gaussian elimination with partial pivoting is
    backward stable norm-wise, not row-wise: every row may carry an absolute residual of order n*eps*max_j(|M||x|+|b|)_j
    whatever its own scale, so that floor is added to each row's scale (a correct solve on a badly row-scaled system
    must not alarm; a wrong coefficient of relative size O(1) in a row is still seen unless the row's scale is
    more than ~1e11 below the largest one)."""
    x = np.asarray(x, dtype=float).ravel()
    b = np.asarray(b, dtype=float).ravel()
    r = sp.csr_array(M) @ x - b
    s = absmv(M, x) + np.abs(b)
    if solver_output and s.size:
        smax = float(np.max(s[np.isfinite(s)])) if np.any(np.isfinite(s)) else 0.0
        if solved is not None:
            # the system that was actually solved may have rows (boundary rows) far larger than any row of M: the solver's
            # norm-wise backward error is relative to THOSE
            ss = absmv(solved[0], x) + np.abs(np.asarray(solved[1], dtype=float).ravel())
            if np.any(np.isfinite(ss)):
                smax = max(smax, float(np.max(ss[np.isfinite(ss)])))
        s = s + (64.0 * len(s) * np.finfo(float).eps / TOL) * smax
    if rows is not None:
        r, s = r[rows], s[rows]
    return nerr(r, 0.0, s)


def digest(*arrays):
    h = hashlib.blake2b(digest_size=12)
    for a in arrays:
        if a is None:
            h.update(b'None')
            continue
        if sp.issparse(a):
            a = sp.csr_array(a)
            a.sum_duplicates()
            a.sort_indices()
            for part in (a.indptr, a.indices, a.data):
                h.update(np.ascontiguousarray(part).tobytes())
            h.update(str(a.shape).encode())
            continue
        a = np.asarray(a)
        h.update(str((a.dtype.str, a.shape)).encode())
        h.update(np.ascontiguousarray(a).tobytes())
    return h.hexdigest()


def mesh_arrays(m):
    out = []
    for part in (m.cellsize, m.cellcenters, m.facecenters):
        out += [part._x, part._y, part._z]
    out += [np.asarray(m.dims), np.asarray(m.corners), np.asarray(m.edges)]
    return out


def bc_arrays(BC):
    out = []
    for side in ('left', 'right', 'bottom', 'top', 'back', 'front'):
        f = getattr(BC, side)
        out += [np.asarray(f._a), np.asarray(f._b), np.asarray(f._c), np.asarray([bool(f._periodic)])]
    return out


def cellvar_arrays(v, visible_only=False):
    out = [np.asarray(v.value) if visible_only else np.asarray(v._value)]
    out += bc_arrays(v.BCs)
    return out


def interior_index(dims):
    """flat indices of interior cells in the (dims+2)-shaped numbering"""
    full = tuple(int(n) + 2 for n in dims)
    G = np.arange(int(np.prod(full))).reshape(full)
    return G[tuple(slice(1, -1) for _ in full)].ravel()


def to_list(a, maxn=400):
    a = np.asarray(a)
    if a.size > maxn:
        return {'shape': list(a.shape), 'head': a.ravel()[:maxn].tolist()}
    return a.tolist()
