"""pytest plugin: run the repository's own tests with the always-on monitor layer attached
(`-p pvmon.pytest_plugin`); the monitors' observations are dumped to $PVMON_OUT at session end."""
import json
import os


def pytest_configure(config):
    from pvmon import pin_paths
    pin_paths()
    from pvmon import install
    install.install()


def pytest_sessionfinish(session, exitstatus):
    from pvmon import install
    out = os.environ.get('PVMON_OUT')
    if out:
        s = install.summary()
        s['pytest_exitstatus'] = int(exitstatus)
        s['tests_collected'] = getattr(session, 'testscollected', None)
        s['tests_failed'] = getattr(session, 'testsfailed', None)
        with open(out, 'w') as f:
            json.dump(s, f)
