"""Seeded generators: grids (9 classes), cell/face fields, boundary-condition
configurations.  Everything is derived from numpy Generator(PCG64) seeded by the case's
sub-seed, so a case spec {kind, seed, params} regenerates the identical execution."""
import math

import numpy as np

from .oracles import CLASSES, NDIM, AXKIND, SIDES, Geom

FAMILIES = ['uniform', 'random', 'geometric', 'symmetric', 'smooth']


def rng_for(*ints):
    return np.random.Generator(np.random.PCG64(np.random.SeedSequence([int(i) & 0xFFFFFFFF for i in ints])))


def widths(rng, n, family, maxratio=50.0):
    if family == 'uniform' or n == 1:
        w = np.ones(n)
    elif family == 'random':
        w = np.exp(rng.uniform(0, math.log(maxratio), n))
    elif family == 'geometric':
        q = rng.uniform(1.1, 2.0) ** rng.choice([-1, 1])
        w = q ** np.arange(n)
    elif family == 'symmetric':
        h = np.exp(rng.uniform(0, math.log(min(maxratio, 8.0)), (n + 1) // 2))
        w = np.concatenate([h, h[:n // 2][::-1]])
    elif family == 'wild':
        w = np.exp(rng.uniform(0, math.log(1e6), n))
    elif family == 'thinend':
        w = np.exp(rng.uniform(0, math.log(3.0), n))
        which = int(rng.integers(0, 3))
        if which in (0, 2):
            w[0] = w[0] * 10 ** rng.uniform(-7, -4)
        if which in (1, 2) and n > 1:
            w[-1] = w[-1] * 10 ** rng.uniform(-7, -4)
    elif family == 'jitter':       # almost uniform: relative irregularity 1e-7 .. 1e-5
        w = 1.0 + 10 ** rng.uniform(-7, -5) * rng.uniform(-1, 1, n)
    elif family == 'smooth':
        xi = np.linspace(0, 1, n + 1)
        kap = rng.uniform(-0.12, 0.12)
        x = xi + kap * np.sin(2 * math.pi * xi)
        w = np.diff(x)
    else:
        raise KeyError(family)
    return w / w.sum()


def int_axis_faces(rng, kind, n):
    """strictly increasing integer face positions stored in an integer array (a legitimate way to write a grid by hand);
    angular axes stay inside their range: (0..6] for azimuth, (0..3] for the polar angle (n is reduced accordingly)"""
    dt = rng.choice([np.int64, np.int32, np.int16])
    if kind == 'ang':
        n = min(n, 6)
        f = np.sort(rng.choice(np.arange(0, 7), n + 1, replace=False))
    elif kind == 'pol':
        n = min(n, 3)
        f = np.sort(rng.choice(np.arange(0, 4), n + 1, replace=False))
    else:
        # positions written in a small unit (millimetres, micrometres): whole numbers of any size the dtype can hold
        mag = int(rng.choice([1, 1, 10, 300, 2000])) if dt != np.int16 else int(rng.choice([1, 1, 10, 300]))
        steps = rng.integers(1, 5, n) * mag
        x0 = (int(rng.integers(0, 4)) if kind == 'rad' else int(rng.integers(-3, 4))) * mag
        f = x0 + np.concatenate([[0], np.cumsum(steps)])
    return np.asarray(f, dtype=dt)


def axis_faces(rng, kind, n, family, opts=None):
    """faces of one axis. kind in len/rad/ang/pol."""
    opts = opts or {}
    if opts.get('intfaces'):
        return int_axis_faces(rng, kind, n)
    w = widths(rng, n, family)
    if kind == 'len':
        L = float(np.exp(rng.uniform(math.log(0.2), math.log(5.0))))
        x0 = 0.0 if rng.random() < 0.5 else float(rng.uniform(-3, 3))
        if opts.get('x0') == 'offset':
            x0 = float(rng.choice([-1.0, 1.0]) * 10 ** rng.uniform(3, 6.5))
        elif opts.get('x0') == 'negative':
            x0 = -L - float(rng.uniform(0.1, 4.0))
    elif kind == 'rad':
        L = float(np.exp(rng.uniform(math.log(0.2), math.log(5.0))))
        r0mode = opts.get('r0', 'any')
        if opts.get('x0') == 'offset':
            x0 = float(10 ** rng.uniform(3, 6.5))
        elif r0mode == 'zero' or (r0mode == 'any' and rng.random() < 0.4):
            x0 = 0.0
        else:
            x0 = float(np.exp(rng.uniform(math.log(0.05), math.log(3.0))))
    elif kind == 'ang':
        if opts.get('full', rng.random() < 0.4):
            x0, L = 0.0, 2 * math.pi
        else:
            L = float(rng.uniform(0.3, 2 * math.pi - 0.2))
            x0 = float(rng.uniform(0, 2 * math.pi - L)) if rng.random() < 0.5 else 0.0
    elif kind == 'pol':
        m = opts.get('pol', rng.choice(['full', 'inner', 'north', 'south']))
        if m == 'full':
            x0, L = 0.0, math.pi
        elif m == 'inner':
            x0 = float(rng.uniform(0.15, 1.2))
            L = float(rng.uniform(0.4, math.pi - 0.15 - x0))
        elif m == 'north':
            x0, L = 0.0, float(rng.uniform(0.4, 2.6))
        else:
            L = float(rng.uniform(0.4, 2.6))
            x0 = math.pi - L
    else:
        raise KeyError(kind)
    f = x0 + L * np.concatenate([[0.0], np.cumsum(w)])
    if kind in ('len', 'rad') and opts.get('lscale'):
        f = f * float(opts['lscale'])          # same shape in another length unit (nanometres ... megametres)
    if kind in ('pol',) and abs(f[-1] - math.pi) < 1e-12:
        f[-1] = math.pi
    if kind == 'ang' and abs(f[-1] - 2 * math.pi) < 1e-12:
        f[-1] = 2 * math.pi
    return f


def geo_opts(rng, geo):
    """(family override, opts) of the special geometries: 'nano'/'mega' = ordinary shapes in tiny/huge length units,
    'jitter' = almost-uniform spacing"""
    if geo == 'nano':
        return None, {'lscale': float(10 ** rng.uniform(-10, -8))}
    if geo == 'mega':
        return None, {'lscale': float(10 ** rng.uniform(4, 8))}
    if geo == 'jitter':
        return 'jitter', {}
    if geo == 'int':
        return None, {'intfaces': True}
    if geo == 'offset':          # far from the origin: x in [1e4, 1e4 + L], r0 ~ 1e4 (differences of large numbers)
        return None, {'x0': 'offset'}
    if geo == 'negative':        # Cartesian / axial coordinates entirely below zero
        return None, {'x0': 'negative'}
    if geo == 'wild':            # neighbouring cells differing by up to 1e6 in width
        return 'wild', {}
    if geo == 'thinend':         # wall-refined grid: the first and/or last cell 1e-7..1e-4 of the others (also next to r = 0 / a pole)
        return 'thinend', {'r0': 'zero' if rng.random() < 0.5 else 'any', 'pol': str(rng.choice(['full', 'north', 'south', 'inner']))}
    return None, {}


def draw_units(rng, which='LTK'):
    """an extreme but legitimate unit system: factors for lengths (L), times (T) and the field (K); each is 1 or far from 1
    (nanometres..megametres, nanoseconds..gigaseconds, nano..mega field units). Inputs are rescaled by their physical
    dimension (see scale_spec / C17), so the rescaled problem is the same problem."""
    u = {'L': 1.0, 'T': 1.0, 'K': 1.0}
    if 'L' in which and rng.random() < 0.6:
        u['L'] = float(10 ** (rng.uniform(-10, -8) if rng.random() < 0.6 else rng.uniform(4, 8)))
    if 'T' in which and rng.random() < 0.6:
        u['T'] = float(10 ** (rng.uniform(-11, -8) if rng.random() < 0.5 else rng.uniform(8, 11)))
    if 'K' in which and rng.random() < 0.6:
        u['K'] = float(10 ** (rng.uniform(-12, -8) if rng.random() < 0.6 else rng.uniform(6, 10)))
    return u


def scale_faces(cls, faces, L):
    return [np.asarray(f, dtype=float) * L if AXKIND[cls][k] in ('len', 'rad') else np.asarray(f, dtype=float).copy() for k, f in enumerate(faces)]


def scale_spec(spec, L, K):
    """boundary data in the other unit system: a x L (multiplies a gradient), b unchanged, c x K"""
    return {'periodic': list(spec['periodic']),
            'sides': {s: {'kind': v['kind'], 'a': v['a'] * L, 'b': v['b'].copy(), 'c': v['c'] * K} for s, v in spec['sides'].items()}}       # plain arrays: no 'util'


def vary_terms(rng, terms, p=0.35):
    """the same equation terms in other containers: sparse matrices of another format (csc / coo / lil; solvePDE accepts any 2-D
    term), in the matrix part of (matrix, vector) tuples as well. Returns a new list; the originals are not modified."""
    import scipy.sparse as sp_
    out = []
    for t in terms:
        if rng.random() >= p:
            out.append(t)
            continue
        fmt = str(rng.choice(['csc', 'csc', 'coo', 'lil']))
        if isinstance(t, tuple) and len(t) == 2 and getattr(t[0], 'ndim', None) == 2:
            out.append((getattr(sp_.csr_array(t[0]), 'to' + fmt)(), t[1]))
        elif getattr(t, 'ndim', None) == 2 and sp_.issparse(t):
            out.append(getattr(sp_.csr_array(t), 'to' + fmt)())
        else:
            out.append(t)
    return out


def equilibrated_cond(M):
    """1-norm condition number after scaling every row to unit maximum (a unit system makes boundary rows O(1) and interior rows
    O(1/T): the plain condition number then measures the units, not the problem)"""
    A = np.asarray(M.toarray() if hasattr(M, 'toarray') else M, dtype=float)
    r = np.max(np.abs(A), axis=1)
    r[r == 0] = 1.0
    return float(np.linalg.cond(A / r[:, None], 1))


def gen_grid(rng, cls, nmin=1, nmax=5, family=None, n=None, opts=None):
    """returns (faces list, meta)"""
    nd = NDIM[cls]
    kinds = AXKIND[cls]
    fam = family or str(rng.choice(FAMILIES))
    if n is None:
        n = [int(rng.integers(nmin, nmax + 1)) for _ in range(nd)]
    faces = []
    fams = []
    for k in range(nd):
        fk = fam if (family is not None or rng.random() < 0.7) else str(rng.choice(FAMILIES))
        fams.append(fk)
        faces.append(axis_faces(rng, kinds[k], n[k], fk, opts))
    n = [len(f) - 1 for f in faces]
    return faces, {'cls': cls, 'n': list(n), 'family': fams, 'r0zero': bool(kinds[0] == 'rad' and faces[0][0] == 0.0)}


_DECOY_KEEP = []
DECOY_STATS = {'built': 0, 'failed': 0}


def warm_decoy(pf, cls, faces, force=False):
    """Before the grid of a case is built, a SIBLING grid lives through a small model run in the same process: same class, same cell
    counts, same first and last face on every axis - but other interior face positions - with variables, boundary conditions, every
    term builder and a solve. A correct library keeps nothing between objects, so this changes nothing; anything memoised per
    class / shape / extent / id() (metric factors, index arrays, work buffers, factorisations) is now warm with the WRONG grid's data
    when the case starts. Deterministic (seeded from the face positions), applied to every second grid, never part of a verdict."""
    import os
    import zlib
    if os.environ.get('PVMON_NO_DECOY'):
        return
    try:
        fl = [np.asarray(f, dtype=float) for f in faces]
        key = zlib.crc32(b''.join(f.tobytes() for f in fl))
        if not force and (key % 2 == 0 or not any(len(f) > 2 for f in fl)):
            return
        rng = np.random.default_rng(key)
        dfaces = []
        for f in fl:
            if len(f) > 2:
                w = rng.uniform(0.3, 1.7, len(f) - 1)
                t = np.cumsum(w) / w.sum()
                f = np.concatenate([[f[0]], f[0] + (f[-1] - f[0]) * t[:-1], [f[-1]]])
            dfaces.append(f.copy())
        with np.errstate(all='ignore'):
            m = getattr(pf, cls)(*dfaces)
            dims = tuple(int(x) for x in m.dims)
            nd = len(dims)
            BC = pf.BoundaryConditions(m)
            for k in range(nd):
                for side in SIDES[k]:
                    fc = getattr(BC, side)
                    fc.a[:] = 1.0
                    fc.b[:] = (-1.0 if side == SIDES[k][0] else 1.0) * rng.uniform(0.5, 2.0)
                    fc.c[:] = rng.normal(0, 1, np.shape(fc.c))
            psi = pf.CellVariable(m, rng.normal(0, 1, dims), BC)
            pos = pf.CellVariable(m, np.exp(rng.normal(0, 1, dims)))
            D = pf.FaceVariable(m, 1.3)
            u = pf.FaceVariable(m, 0.7)
            terms = [pf.transientTerm(psi, 0.1, 1.0), -pf.diffusionTerm(D), pf.convectionUpwindTerm(u), pf.linearSourceTerm(pos), pf.constantSourceTerm(pos)]
            pf.convectionTerm(u)
            pf.convectionTVDupwindRHSTerm(u, psi, pf.fluxLimiter('SUPERBEE'))
            pf.divergenceTerm(D * pf.gradientTerm(psi))
            pf.divergenceTerm(u * pf.upwindMean(psi, u))
            pf.linearMean(psi), pf.arithmeticMean(pos), pf.harmonicMean(pos), pf.geometricMean(pos)
            np.sum(m.cellvolume), psi.domainIntegral()
            pf.solvePDE(psi, terms)
            pf.solveExplicitPDE(psi, 1e-6, pf.divergenceTerm(D * pf.gradientTerm(psi)))
        keep = [(m, psi, pos, D, u, terms)]
        dims_r = tuple(reversed(dims))
        if nd > 1 and dims_r != dims:
            # ... and a second sibling with the cell counts in reverse order (same number of cells, same matrix order, other shape)
            with np.errstate(all='ignore'):
                m2 = getattr(pf, cls)(*dims_r, *([1.0] * nd))
                BC2 = pf.BoundaryConditions(m2)
                for k in range(nd):
                    for side in SIDES[k]:
                        fc = getattr(BC2, side)
                        fc.a[:] = 1.0
                        fc.b[:] = (-1.0 if side == SIDES[k][0] else 1.0) * 0.8
                        fc.c[:] = 0.3
                psi2 = pf.CellVariable(m2, rng.normal(0, 1, dims_r), BC2)
                pos2 = pf.CellVariable(m2, np.exp(rng.normal(0, 1, dims_r)))
                D2, u2 = pf.FaceVariable(m2, 1.3), pf.FaceVariable(m2, 0.7)
                t2 = [pf.transientTerm(psi2, 0.1, pos2), -pf.diffusionTerm(D2), pf.convectionUpwindTerm(u2), pf.convectionTerm(u2), pf.linearSourceTerm(pos2), pf.constantSourceTerm(pos2)]
                pf.convectionTVDupwindRHSTerm(u2, psi2, pf.fluxLimiter('SUPERBEE'))
                pf.divergenceTerm(D2 * pf.gradientTerm(psi2))
                pf.linearMean(psi2), pf.harmonicMean(pos2), pf.upwindMean(psi2, u2)
                np.sum(m2.cellvolume)
                pf.solvePDE(psi2, t2)
            keep.append((m2, psi2, pos2, D2, u2, t2))
            DECOY_STATS['built_reversed'] = DECOY_STATS.get('built_reversed', 0) + 1
        _DECOY_KEEP[:] = keep       # the previous siblings die here (their id() may be reused), these stay alive
        DECOY_STATS['built'] += 1
    except Exception:
        DECOY_STATS['failed'] += 1


def build_mesh(pf, cls, faces, decoy=True):
    """integer-typed face arrays are handed over as they are (see int_axis_faces), everything else as float arrays"""
    if decoy:
        warm_decoy(pf, cls, faces)
    return getattr(pf, cls)(*[np.array(f) if np.asarray(f).dtype.kind in 'iu' else np.array(f, dtype=float) for f in faces])


def cell_field(rng, shape, family=None):
    family = family or str(rng.choice(['random', 'random', 'smallint', 'spike', 'step', 'positive', 'const']))
    if family == 'random':
        a = rng.normal(0, 1, shape) * 10 ** rng.uniform(-2, 2)
    elif family == 'smallint':
        a = rng.integers(-1, 3, shape).astype(float)
    elif family == 'spike':
        a = np.zeros(shape)
        a[tuple(rng.integers(0, s) for s in shape)] = rng.choice([-1.0, 1.0]) * 10 ** rng.uniform(-1, 2)
    elif family == 'step':
        a = np.zeros(shape)
        k = int(rng.integers(0, len(shape)))
        cut = int(rng.integers(0, shape[k] + 1))
        idx = [slice(None)] * len(shape)
        idx[k] = slice(cut, None)
        a[tuple(idx)] = 1.0
        a = a * rng.choice([-2.0, 1.0, 3.5])
    elif family == 'positive':
        a = np.exp(rng.normal(0, 1.5, shape))
    elif family == 'const':
        a = np.full(shape, float(rng.normal() * 10 ** rng.uniform(-2, 2)))
    else:
        raise KeyError(family)
    return a, family


def face_arrays(rng, g, family=None, positive=False):
    """list of per-axis face arrays of the grid g (oracle Geom). family: 'sign' all sign patterns
    (-,0,+), 'random', 'const'."""
    family = family or str(rng.choice(['sign', 'random', 'const', 'sign']))
    out = []
    for k in range(g.nd):
        sh = g.face_shape(k)
        mag = np.exp(rng.uniform(math.log(1e-2), math.log(1e2), sh))
        if positive and family == 'int':
            a = rng.integers(0 if rng.random() < 0.3 else 1, 7, sh).astype(rng.choice([np.int64, np.int32]))
        elif positive:
            a = mag.copy()
            if family == 'sign':   # exact zeros on some faces
                a[rng.random(sh) < 0.25] = 0.0
            elif family == 'const':
                a = np.full(sh, float(mag.flat[0]))
        elif family == 'sign':
            a = mag * rng.integers(-1, 2, sh)
        elif family == 'random':
            a = rng.normal(0, 1, sh) * 10 ** rng.uniform(-2, 2)
        elif family == 'const':
            a = np.full(sh, float(rng.normal() * 10 ** rng.uniform(-1, 1)))
        elif family == 'int':        # whole numbers stored in an integer array (u.xvalue = np.array([3, 1, -2, ...]))
            a = rng.integers(-5, 6, sh).astype(rng.choice([np.int64, np.int32]))
        else:
            raise KeyError(family)
        out.append(a)
    return out, family


def facevar(pf, mesh, arrs):
    """three-array constructor form; integer-typed component arrays are handed over as they are"""
    a = [np.array(x) if np.asarray(x).dtype.kind in 'iu' else np.array(x, dtype=float) for x in arrs] + [np.array([])] * (3 - len(arrs))
    return pf.FaceVariable(mesh, a[0], a[1], a[2])


def facevar_refreshed(pf, mesh, arrs):
    """a velocity / coefficient object that has a HISTORY: created with other values, used for the advection matrices, the TVD
    correction and the upwind mean, then given its real values IN PLACE (u.xvalue[...] = ..., the documented way to refresh a face
    variable inside a loop). Equal, for every purpose, to facevar(pf, mesh, arrs)."""
    first = [np.asarray(x, dtype=float)[..., ::-1] * -0.5 + 0.25 if np.asarray(x).ndim else np.asarray(x, dtype=float) for x in arrs]
    fv = facevar(pf, mesh, [np.ascontiguousarray(a_) for a_ in first])
    with np.errstate(all='ignore'):
        try:
            phi_ = pf.CellVariable(mesh, 1.0)
            pf.convectionTerm(fv), pf.convectionUpwindTerm(fv), pf.upwindMean(phi_, fv), pf.diffusionTerm(fv)
            pf.convectionTVDupwindRHSTerm(fv, phi_, pf.fluxLimiter('SUPERBEE'))
        except Exception:
            pass
    for comp, target in zip(facevar_arrays(fv, len(arrs)), arrs):
        comp[...] = np.asarray(target, dtype=float)
    return fv


def facevar_arrays(fv, nd):
    return [fv._xvalue, fv._yvalue, fv._zvalue][:nd]


def periodic_ok(cls, k):
    """axes on which a periodic condition is accepted by the library (radial axes are not)"""
    return AXKIND[cls][k] != 'rad'


def gen_bc_spec(rng, g, kinds=None, periodic_axes=(), robin_signs='wellposed', lams=(1.0, 1.0, -1.0, 2.5, 1e-3, 1e3), utilities=True):
    """Boundary-condition spec: {side: {'kind','a','b','c'}} plus 'periodic' axes list.
    kinds: dict side->kind or None (random among D/N/R)."""
    spec = {'periodic': [int(k) for k in periodic_axes], 'sides': {}}
    # a periodic axis is declared by the flag of its low side, of its high side, or both (either suffices for the library)
    spec['pstyle'] = {int(k): str(rng.choice(['both', 'low', 'high'])) for k in periodic_axes}
    for k in range(g.nd):
        for j, side in enumerate(SIDES[k]):
            sh = g.side_shape(k)
            kind = (kinds or {}).get(side) or str(rng.choice(['D', 'N', 'R']))
            lam = float(rng.choice(list(lams)))
            util = None
            if utilities and (kinds or {}).get(side) is None and rng.random() < 0.35:
                # the same three kinds written with the utility methods (their documented arithmetic reproduced here bit for bit)
                if kind == 'D':
                    v = rng.normal(0, 1, sh) if rng.random() < 0.5 else float(rng.normal())
                    util = ('fixedValue', (v,), {})
                    a, b, c = np.zeros(sh), np.ones(sh), np.broadcast_to(np.asarray(v, dtype=float), sh).copy()
                elif kind == 'N':
                    gr = rng.normal(0, 1, sh) if rng.random() < 0.5 else float(rng.normal())
                    sc = float(rng.choice([1.0, 1.0, -2.0, 0.25, 1e3]))
                    util = ('fixedGradient', (gr,), {'scale_coeffs': sc} if sc != 1.0 or rng.random() < 0.5 else {})
                    a, b, c = np.full(sh, sc), np.zeros(sh), np.broadcast_to(np.asarray(sc * gr, dtype=float), sh).copy()
                else:
                    kk, hh, Te = float(np.exp(rng.normal(0, 1))), float(np.exp(rng.normal(0, 1))), float(rng.normal())
                    rev = bool(j == 0) if robin_signs == 'wellposed' else bool(rng.random() < 0.5)
                    util = ('newtonCooling', (kk, hh, Te), {'reverse_direction': rev})
                    he = -hh if rev else hh
                    a, b, c = np.full(sh, kk), np.full(sh, he), np.full(sh, he * Te)
                spec['sides'][side] = {'kind': kind, 'a': a, 'b': b, 'c': c, 'util': util}
                continue
            if kind == 'D':
                a = np.zeros(sh)
                b = np.ones(sh) * lam
                c = rng.normal(0, 1, sh) * lam
            elif kind == 'N':
                a = np.ones(sh) * lam
                b = np.zeros(sh)
                c = rng.normal(0, 1, sh) * lam
            elif kind == 'N0':   # default no-flux
                a = np.ones(sh)
                b = np.zeros(sh)
                c = np.zeros(sh)
            elif kind == 'R':
                a = np.exp(rng.normal(0, 1, sh))
                b = np.exp(rng.normal(0, 1, sh))
                if robin_signs == 'wellposed':
                    if j == 0:
                        b = -b
                else:
                    b = b * rng.choice([-1.0, 1.0], sh)
                c = rng.normal(0, 1, sh)
                a, b, c = a * lam, b * lam, c * lam
            else:
                raise KeyError(kind)
            spec['sides'][side] = {'kind': kind, 'a': a, 'b': b, 'c': c}
    return spec


def robin_denominators(g, spec):
    """the two coefficients (on ghost, on interior) of each side's boundary relation
    a*(phi_hi-phi_lo)/(h*delta) + b*(phi_hi+phi_lo)/2 = c, as written from the oracle geometry.
    Returns dict side -> (coef_ghost, coef_interior)."""
    out = {}
    for k in range(g.nd):
        if k in spec['periodic']:
            continue
        h = g.hscale(k)
        # reduce h to the side's shape
        hs = np.broadcast_to(h, g.dims)
        idx = [slice(None)] * g.nd
        idx[k] = 0
        hs = hs[tuple(idx)]
        if g.nd == 1:
            hs = np.ones(1)
        for j, side in enumerate(SIDES[k]):
            s = spec['sides'][side]
            delta = g.w[k][0] if j == 0 else g.w[k][-1]
            ad = s['a'] / (hs * delta)
            if j == 0:   # ghost is the low cell
                out[side] = (-ad + s['b'] / 2, ad + s['b'] / 2)
            else:
                out[side] = (ad + s['b'] / 2, -ad + s['b'] / 2)
    return out


def bc_nonsingular(g, spec, tol=0.05):
    for side, (cg, ci) in robin_denominators(g, spec).items():
        s = spec['sides'][side]
        scale = np.abs(s['a']) / 1.0 + np.abs(s['b'])
        if np.any(np.abs(cg) < tol * (np.abs(cg) + np.abs(ci)) + 1e-300):
            return False
    return True


def apply_bc_spec(BC, g, spec):
    """assign a spec onto a pyfvtool BoundaryConditions object through the public setters"""
    for k in range(g.nd):
        for side in SIDES[k]:
            s = spec['sides'][side]
            face = getattr(BC, side)
            if s.get('util'):
                name, args, kw = s['util']
                getattr(face, name)(*args, **kw)
                continue
            face.a = s['a']
            face.b = s['b']
            face.c = s['c']
    for k in spec['periodic']:
        st = (spec.get('pstyle') or {}).get(k, 'both')
        if st in ('both', 'low'):
            getattr(BC, SIDES[k][0]).periodic = True
        if st in ('both', 'high'):
            getattr(BC, SIDES[k][1]).periodic = True
    return BC


def make_bc(pf, mesh, g, spec):
    return apply_bc_spec(pf.BoundaryConditions(mesh), g, spec)


def bc_kind_vector(g, spec):
    out = []
    for k in range(g.nd):
        if k in spec['periodic']:
            out.append('P')
        else:
            out.append(spec['sides'][SIDES[k][0]]['kind'] + spec['sides'][SIDES[k][1]]['kind'])
    return '-'.join(out)


def describe_grid(meta, faces):
    return {'cls': meta['cls'], 'n': meta['n'], 'family': meta['family'],
            'faces': [np.round(f, 6).tolist() for f in faces]}
