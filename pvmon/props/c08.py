"""C08 - redundant axes, axis relabelling, mirroring and periodic shifts change nothing.

History + model shape: the same generated problem is executed on two grids (original / transformed) through the real
solvers and the two recorded solve sequences are compared: constancy along the redundant coordinate, mapped solution
plugged into the captured transformed system (residual), direct comparison (cond-aware), ghost layers."""
import itertools

import numpy as np
import scipy.sparse as sp

import pyfvtool as pf

from ..oracles import CLASSES, NDIM, LIMITERS, SIDES, AXKIND, Geom
from .. import gen
from ..common import SpySolver, residual_err, interior_index, to_list, TOL, solve_with

ID = 'C08'
RULE = ('cases = (pair kind in {embedding Grid1D->2D->3D on every axis position, CylindricalGrid1D->CylindricalGrid2D, '
        'CylindricalGrid1D->PolarGrid2D, CylindricalGrid2D->CylindricalGrid3D, PolarGrid2D->CylindricalGrid3D; every Cartesian axis '
        'permutation in 2D/3D; mirroring of each Cartesian axis; cyclic shift along a periodic uniform axis}, term set incl. TVD, '
        'implicit or explicit, BC kinds incl. periodic subsets, 1..3 steps); both executions use the real solvers; non-trivial = '
        'field not constant; distinct by (pair kind, classes, N, families, BC vector, term set, mode)')
ASSUMPTIONS = ['added sides of an embedding carry no-flux or periodic conditions, zero velocity along the added coordinate and an '
               'arbitrary positive diffusivity on the added faces', 'direct comparison tolerance 1e-11*cond_1 (skipped above 1e9)']
KEY_UPW_PER = 'shift/upwind-across-periodic-boundary'

EMBED = [('Grid1D', 'Grid2D', 0), ('Grid1D', 'Grid2D', 1), ('Grid2D', 'Grid3D', 0), ('Grid2D', 'Grid3D', 1), ('Grid2D', 'Grid3D', 2),
         ('CylindricalGrid1D', 'CylindricalGrid2D', 1), ('CylindricalGrid1D', 'PolarGrid2D', 1),
         ('CylindricalGrid2D', 'CylindricalGrid3D', 1), ('PolarGrid2D', 'CylindricalGrid3D', 2)]


# ------------------------------------------------------------------ problem description and execution
def slab(dims, k, arr):
    sh = list(dims)
    sh[k] = 1
    return np.asarray(arr, dtype=float).reshape(sh)


def unslab(k, a):
    out = np.squeeze(a, axis=k)
    return out.reshape((1,)) if out.ndim == 0 else out


def make_problem(rng, cls, nmax, periodic_axes=None, uniform_axes=(), geo=None, any_ends=False):
    nd = NDIM[cls]
    n = [int(rng.integers(1, nmax + 1)) for _ in range(nd)]
    faces = []
    fams = []
    for k in range(nd):
        fam = 'uniform' if k in uniform_axes else str(rng.choice(gen.FAMILIES))
        fams.append(fam)
        o_ = {'full': True} if k in uniform_axes and AXKIND[cls][k] == 'ang' else {}
        if geo:
            gf_, go_ = gen.geo_opts(rng, geo)
            o_.update(go_)
            if gf_ and k not in uniform_axes:
                fam = fams[-1] = gf_
        faces.append(gen.axis_faces(rng, AXKIND[cls][k], n[k], fam, o_ or None))
    g = Geom(cls, faces)
    if periodic_axes is None:
        # any_ends: embeddings and relabellings compare two executions of the SAME discrete formulas, so periodic axes whose first
        # and last cells differ in width are admissible there (whatever the library does at such a seam, it must do it alike in 1-D,
        # 2-D and 3-D and under every axis order); mirror and shift pairs keep to equal end cells
        capable = [k for k in range(nd) if AXKIND[cls][k] in ('len', 'ang') and (any_ends or abs(g.w[k][0] - g.w[k][-1]) <= 1e-12 * g.w[k][0])]
        periodic_axes = [k for k in capable if rng.random() < (0.45 if any_ends else 0.3)]
    for _ in range(60):
        spec = gen.gen_bc_spec(rng, g, periodic_axes=periodic_axes, lams=(1.0, -1.0, 2.5, 0.4))
        if gen.bc_nonsingular(g, spec):
            break
    D, _ = gen.face_arrays(rng, g, 'random', positive=True)
    D = [np.clip(a, 1e-2, 1e2) for a in D]
    u, _ = gen.face_arrays(rng, g, 'sign')
    u = [np.sign(a) * np.clip(np.abs(a), 1e-2, 1e1) * 0.3 for a in u]
    for k in periodic_axes:           # periodic-compatible coefficients: first face = last face
        for arr in (D[k], u[k]):
            i0 = [slice(None)] * nd
            i1 = [slice(None)] * nd
            i0[k], i1[k] = 0, -1
            arr[tuple(i1)] = arr[tuple(i0)]
    vals, ffam = gen.cell_field(rng, g.dims, str(rng.choice(['random', 'step', 'positive', 'spike'])))
    return {'cls': cls, 'faces': faces, 'fams': fams, 'n': n, 'spec': spec, 'D': D, 'u': u, 'vals': vals, 'ffam': ffam,
            'beta': np.abs(rng.normal(0, 1, g.dims)), 'gamma': rng.normal(0, 1, g.dims)}


def execute(P, tset, mode, limname, dts, alphas, hmin=None):
    """run the step sequence on problem P; returns list of per-step dicts with captured system and full value array"""
    cls = P['cls']
    g = Geom(cls, P['faces'])
    m = gen.build_mesh(pf, cls, P['faces'])
    BC = gen.make_bc(pf, m, g, dict(P['spec'], periodic=[]))
    # a periodic axis is declared by the flag on its low side, its high side or both (library semantics: either suffices); the
    # two executions of a pair draw the style independently
    frng = gen.rng_for(*(list(P.get('flag_seed', [0])) + [4242]))
    styles = {}
    for k in P['spec']['periodic']:
        st = str(frng.choice(['low', 'high', 'both', 'both']))
        styles[k] = st
        if st in ('low', 'both'):
            getattr(BC, SIDES[k][0]).periodic = True
        if st in ('high', 'both'):
            getattr(BC, SIDES[k][1]).periodic = True
    P['flag_styles'] = styles
    phi = pf.CellVariable(m, P['vals'].copy(), BC)
    Df, uf = gen.facevar(pf, m, P['D']), gen.facevar(pf, m, P['u'])
    if P.get('coef_refreshed_in_place') and all(np.asarray(a_).dtype.kind == 'f' for a_ in list(P['u']) + list(P['D'])):
        # this execution's coefficient objects have been used before with other values and were refreshed in place
        Df, uf = gen.facevar_refreshed(pf, m, P['D']), gen.facevar_refreshed(pf, m, P['u'])
    FL = pf.fluxLimiter(limname)
    out = []
    with np.errstate(all='ignore'):
        for istep, (dt, alpha) in enumerate(zip(dts, alphas)):
            if istep == 1 and P.get('spec2') is not None:
                for sd, v2 in P['spec2']['sides'].items():
                    if not np.array_equal(v2['c'], P['spec']['sides'][sd]['c']):
                        getattr(phi.BCs, sd).c = v2['c']
            if mode == 'implicit':
                terms = [pf.transientTerm(phi, dt, alpha), -pf.diffusionTerm(Df)]
                if 'central' in tset:
                    terms.append(pf.convectionTerm(uf))
                if 'upwind' in tset:
                    terms.append(pf.convectionUpwindTerm(uf))
                if 'tvd' in tset:
                    terms.append(pf.convectionTVDupwindRHSTerm(uf, phi, FL))
                if 'src' in tset:
                    terms += [pf.linearSourceTerm(pf.CellVariable(m, P['beta'].copy())), pf.constantSourceTerm(pf.CellVariable(m, P['gamma'].copy()))]
                if P.get('containers') is not None:
                    terms = gen.vary_terms(np.random.default_rng([int(P['containers']), istep]), terms, p=0.5)
                spy = SpySolver()
                solve_with(pf, spy, phi, terms, default_path=bool(P.get('default_path')))
                M, b, x = spy.last
                out.append({'M': M, 'b': b, 'x': x, 'full': np.array(phi._value, copy=True)})
            else:
                dte = 0.05 * hmin ** 2 / 1e2 / 6.0 * min(1.0, dt)
                if 'central' in tset:
                    face = uf * pf.linearMean(phi) - Df * pf.gradientTerm(phi)
                elif 'upwind' in tset:
                    face = uf * pf.upwindMean(phi, uf) - Df * pf.gradientTerm(phi)
                else:
                    face = -(Df * pf.gradientTerm(phi))
                rhs = -pf.divergenceTerm(face)
                if 'tvd' in tset:
                    rhs = rhs + pf.convectionTVDupwindRHSTerm(uf, phi, FL)
                phi = pf.solveExplicitPDE(phi, dte, rhs)
                out.append({'M': None, 'full': np.array(phi._value, copy=True), 'dt': dte})
    return out, g


# ------------------------------------------------------------------ transformations
def op_on_sides(P, g, newcls, axis_map, op):
    """apply array operation `op(slab_like_array, is_face_axis)` to all side coefficient arrays; axis_map: old axis -> new axis"""
    spec = P['spec']
    out = {'periodic': [axis_map[k] for k in spec['periodic']], 'sides': {}}
    for k in range(g.nd):
        for j, side in enumerate(SIDES[k]):
            s = spec['sides'][side]
            k2 = axis_map[k]
            new = {'kind': s['kind']}
            for nm in ('a', 'b', 'c'):
                new[nm] = unslab(k2, op(slab(g.dims, k, s[nm])))
            out['sides'][SIDES[k2][j]] = new
    return out


def embed(P, newcls, p, rng):
    cls = P['cls']
    g = Geom(cls, P['faces'])
    nd = g.nd
    nnew = int(rng.integers(1, 4))
    kind = AXKIND[newcls][p]
    fam = str(rng.choice(['uniform', 'random', 'symmetric']))
    fnew = gen.axis_faces(rng, kind, nnew, fam)
    per_new = bool(kind in ('len', 'ang') and abs((fnew[1] - fnew[0]) - (fnew[-1] - fnew[-2])) <= 1e-12 * (fnew[1] - fnew[0]) and rng.random() < 0.5)
    amap = {k: k + (1 if k >= p else 0) for k in range(nd)}

    def E(arr, n=nnew):
        return np.repeat(np.expand_dims(np.asarray(arr, dtype=float), p), n, axis=p)
    faces = list(P['faces'])
    faces.insert(p, fnew)
    Q = {'cls': newcls, 'faces': faces, 'vals': E(P['vals']), 'beta': E(P['beta']), 'gamma': E(P['gamma']), 'ffam': P['ffam']}
    D = [E(a) for a in P['D']]
    u = [E(a) for a in P['u']]
    shp = list(Q['vals'].shape)
    shp[p] += 1
    D.insert(p, np.exp(rng.normal(0, 1, shp)))
    u.insert(p, np.zeros(shp))
    Q['D'], Q['u'] = D, u
    spec = op_on_sides(P, g, newcls, amap, E)
    sh = tuple(s for i, s in enumerate(Q['vals'].shape) if i != p)
    for side in SIDES[p]:
        spec['sides'][side] = {'kind': 'N0', 'a': np.ones(sh), 'b': np.zeros(sh), 'c': np.zeros(sh)}
    if per_new:
        spec['periodic'] = sorted(spec['periodic'] + [p])
    Q['spec'] = spec

    def lift(full_low):
        return np.repeat(np.expand_dims(full_low, p), nnew + 2, axis=p)
    return Q, lift, {'new_axis': p, 'n_new': nnew, 'periodic_new': per_new, 'family_new': fam}


def permute(P, perm):
    cls = P['cls']
    g = Geom(cls, P['faces'])
    nd = g.nd
    inv = {old: new for new, old in enumerate(perm)}          # old axis -> new axis

    def T(arr):
        return np.transpose(np.asarray(arr, dtype=float), perm)
    Q = {'cls': cls, 'faces': [P['faces'][perm[j]] for j in range(nd)], 'vals': T(P['vals']), 'beta': T(P['beta']), 'gamma': T(P['gamma']),
         'D': [T(P['D'][perm[j]]) for j in range(nd)], 'u': [T(P['u'][perm[j]]) for j in range(nd)], 'ffam': P['ffam']}
    Q['spec'] = op_on_sides(P, g, cls, inv, T)
    return Q, (lambda full: np.transpose(full, perm)), {'perm': list(perm)}


def mirror(P, k):
    cls = P['cls']
    g = Geom(cls, P['faces'])
    nd = g.nd
    f = P['faces'][k]

    def F(arr):
        return np.flip(np.asarray(arr, dtype=float), axis=k)
    faces = list(P['faces'])
    faces[k] = (f[0] + f[-1]) - f[::-1]
    Q = {'cls': cls, 'faces': faces, 'vals': F(P['vals']), 'beta': F(P['beta']), 'gamma': F(P['gamma']),
         'D': [F(a) for a in P['D']], 'u': [(-F(a) if j == k else F(a)) for j, a in enumerate(P['u'])], 'ffam': P['ffam']}
    spec = op_on_sides(P, g, cls, {j: j for j in range(nd)}, F)
    lo, hi = SIDES[k]
    spec['sides'][lo], spec['sides'][hi] = spec['sides'][hi], spec['sides'][lo]
    for side in (lo, hi):
        spec['sides'][side] = dict(spec['sides'][side])
        spec['sides'][side]['a'] = -spec['sides'][side]['a']      # d/dn in the positive coordinate direction flips sign
    Q['spec'] = spec
    return Q, (lambda full: np.flip(full, axis=k)), {'mirror_axis': k}


def shift(P, k, s):
    cls = P['cls']
    g = Geom(cls, P['faces'])
    nd = g.nd

    def R(arr):
        return np.roll(np.asarray(arr, dtype=float), s, axis=k)

    def Rface(arr):           # N+1 faces along k with first == last
        a = np.asarray(arr, dtype=float)
        idx = [slice(None)] * nd
        idx[k] = slice(0, -1)
        core = np.roll(a[tuple(idx)], s, axis=k)
        first = [slice(None)] * nd
        first[k] = slice(0, 1)
        return np.concatenate([core, core[tuple(first)]], axis=k)
    Q = {'cls': cls, 'faces': P['faces'], 'vals': R(P['vals']), 'beta': R(P['beta']), 'gamma': R(P['gamma']),
         'D': [(Rface(a) if j == k else R(a)) for j, a in enumerate(P['D'])],
         'u': [(Rface(a) if j == k else R(a)) for j, a in enumerate(P['u'])], 'ffam': P['ffam']}

    def Rs(arr):
        return arr if arr.shape[k] == 1 else np.roll(arr, s, axis=k)
    Q['spec'] = op_on_sides(P, g, cls, {j: j for j in range(nd)}, Rs)

    def lift(full):
        it = [slice(None)] * nd
        it[k] = slice(1, -1)
        core = np.roll(full[tuple(it)], s, axis=k)
        lo = [slice(None)] * nd
        hi = [slice(None)] * nd
        lo[k] = slice(-1, None)
        hi[k] = slice(0, 1)
        return np.concatenate([core[tuple(lo)], core, core[tuple(hi)]], axis=k)
    return Q, lift, {'shift_axis': k, 'shift': s}


# ------------------------------------------------------------------ comparison
def noncorner_mask(shape):
    cnt = np.zeros(shape, dtype=int)
    for k in range(len(shape)):
        idx = [slice(None)] * len(shape)
        idx[k] = [0, -1]
        cnt[tuple(idx)] += 1
    return cnt <= 1


def run_case(case):
    rng = gen.rng_for(*case['seed'])
    kind = case['kind']
    tset, mode = case['tset'], case['mode']
    limname = str(rng.choice(LIMITERS))
    nsteps = int(rng.integers(1, 4))
    if case.get('geo'):
        nsteps = 1          # one step: on badly conditioned special geometries the lagged TVD term would turn the cond-amplified rounding
                            # difference of the two first steps into a difference of the second systems (cf. false alarm 5)
    dts = [float(10 ** rng.uniform(-2, 1)) for _ in range(nsteps)]
    alphas = [float(10 ** rng.uniform(-0.5, 0.5)) for _ in range(nsteps)]
    cov, maxerr, bad = {}, {}, []
    transform = None
    if kind == 'embed':
        lowcls, highcls, p = EMBED[case['pair']]
        fp_ = None
        if case.get('seam'):
            # directed: the last periodic-capable axis of the lower-dimensional problem IS periodic, with cells of any width at the seam
            capk_ = [k_ for k_ in range(NDIM[lowcls]) if AXKIND[lowcls][k_] in ('len', 'ang')]
            fp_ = capk_[-1:] or None
        P = make_problem(rng, lowcls, 4 if NDIM[lowcls] == 1 else 3, periodic_axes=fp_, geo=case.get('geo'), any_ends=bool(case['seed'][-1] % 2) or bool(case.get('seam')))
        if case.get('seam'):
            cov['embed_with_periodic_seam_any_widths'] = 1
        st_ = rng.bit_generator.state

        def transform(PP):
            rng.bit_generator.state = st_
            return embed(PP, highcls, p, rng)
        Q, lift, info = transform(P)
        label = '%s->%s@%d' % (lowcls, highcls, p)
    elif kind == 'permute':
        cls = case['cls']
        P = make_problem(rng, cls, 4 if NDIM[cls] == 2 else 3, geo=case.get('geo'), any_ends=bool(case['seed'][-1] % 2))
        transform = lambda PP: permute(PP, tuple(case['perm']))
        Q, lift, info = transform(P)
        label = '%s perm %r' % (cls, case['perm'])
    elif kind == 'mirror':
        cls = case['cls']
        P = make_problem(rng, cls, 4 if NDIM[cls] < 3 else 3, geo=case.get('geo'))
        transform = lambda PP: mirror(PP, case['axis'])
        Q, lift, info = transform(P)
        label = '%s mirror %d' % (cls, case['axis'])
    elif kind == 'shift':
        cls = case['cls']
        k = case['axis']
        P = make_problem(rng, cls, 5 if NDIM[cls] < 3 else 3, periodic_axes=None, uniform_axes=(k,))
        if k not in P['spec']['periodic']:
            P['spec']['periodic'] = sorted(P['spec']['periodic'] + [k])
            for arr in (P['D'][k], P['u'][k]):
                i0 = [slice(None)] * arr.ndim
                i1 = [slice(None)] * arr.ndim
                i0[k], i1[k] = 0, -1
                arr[tuple(i1)] = arr[tuple(i0)]
        s = int(rng.integers(1, max(2, P['vals'].shape[k])))
        transform = lambda PP: shift(PP, k, s)
        Q, lift, info = transform(P)
        label = '%s shift axis %d by %d' % (cls, k, s)
    else:
        raise KeyError(kind)
    if case.get('bc_edit'):
        # the boundary data of ONE side are changed between two steps (through the setter, nothing else touched); the transformed
        # problem receives the correspondingly transformed edit
        gP = Geom(P['cls'], P['faces'])
        cand = [(kk, jj) for kk in range(gP.nd) if kk not in P['spec']['periodic'] for jj in (0, 1)]
        if cand and len(dts) >= 1:
            if len(dts) < 2:
                dts, alphas = dts * 2, alphas * 2
            kk, jj = cand[int(rng.integers(0, len(cand)))]
            spec2 = {'periodic': list(P['spec']['periodic']), 'sides': {sd: dict(v) for sd, v in P['spec']['sides'].items()}}
            sd = SIDES[kk][jj]
            spec2['sides'][sd]['c'] = spec2['sides'][sd]['c'] + (1.0 + np.abs(rng.normal(0, 1, np.shape(spec2['sides'][sd]['c']))))
            P['spec2'] = spec2
            Q2, _l2, _i2 = transform(dict(P, spec=spec2))
            Q['spec2'] = Q2['spec']
            cov['bc_edit_between_steps:' + sd] = 1
    gq = Geom(Q['cls'], Q['faces'])
    gp = Geom(P['cls'], P['faces'])
    hmin = min(min(float(np.min(gg.w[k] * np.min(gg.hscale(k)))) for k in range(gg.nd)) for gg in (gp, gq))
    P['flag_seed'] = list(case['seed']) + [1]
    Q['flag_seed'] = list(case['seed']) + [2]
    P['default_path'] = bool(case['seed'][-1] % 2)            # the two executions of a pair use the two solver routes crosswise
    Q['default_path'] = not P['default_path'] if case['seed'][-1] % 4 < 2 else P['default_path']
    if case['seed'][-1] % 3 == 1:
        Q['coef_refreshed_in_place'] = True
        cov['coefficients_refreshed_in_place'] = 1
    # one execution of the pair hands its matrix terms over in other sparse containers (csc / coo / lil), the other as built
    if case['seed'][-1] % 3 == 0:
        Q['containers'] = int(case['seed'][-1]) + 7
        cov['term_containers_varied'] = 1
    lowres, gL = execute(P, tset, mode, limname, dts, alphas, hmin)
    highres, gH = execute(Q, tset, mode, limname, dts, alphas, hmin)
    for st_ in list(P.get('flag_styles', {}).values()) + list(Q.get('flag_styles', {}).values()):
        cov['periodic_flag:' + st_] = cov.get('periodic_flag:' + st_, 0) + 1
    mask = noncorner_mask(gH.full_shape())
    upw_per = kind == 'shift' and ('upwind' in tset) and np.any(P['u'][case['axis']] != 0)
    for step, (lo, hi) in enumerate(zip(lowres, highres)):
        fl, fh = lo['full'], hi['full']
        if not (np.all(np.isfinite(fl)) and np.all(np.isfinite(fh[mask]))):
            return {'verdict': 'inconclusive', 'key': 'singular', 'msg': 'non-finite solution', 'nontrivial': False, 'cov': cov}
        mapped = lift(fl)
        scale = float(np.max(np.abs(mapped[mask]))) + 1e-300
        if kind == 'embed':
            p = info['new_axis']
            it = [slice(None)] * gH.nd
            it[p] = slice(1, -1)
            inner = fh[tuple(it)]
            spread = float(np.max(np.abs(inner - np.take(inner, [0], axis=p)) * np.take(mask[tuple(it)], [0], axis=p)))
            maxerr['constancy'] = max(maxerr.get('constancy', 0.0), spread / scale)
        if mode == 'implicit':
            M, b, x = hi['M'], hi['b'], hi['x']
            xl = lift(lo['x'].reshape(gL.full_shape())).ravel()
            xm = np.where(mask.ravel(), xl, x)            # dummy corner unknowns from the high-dim solve
            e = residual_err(M, xm, b, solver_output=True)
            maxerr['mapped-residual'] = max(maxerr.get('mapped-residual', 0.0), e)
            cov['residual_checks'] = cov.get('residual_checks', 0) + 1
            n = M.shape[0]
            cond = np.linalg.cond(M.toarray(), 1) if n <= 500 else np.inf
            tol_direct = (1e-11 * cond + 1e-12) if np.isfinite(cond) and cond < 1e9 else None
            if not (e <= TOL):
                bad.append(('mapped-residual', '%s, step %d (%s %s): the mapped solution of the original problem does not satisfy the system assembled on the transformed grid (normalised residual %.3g)' % (
                    label, step + 1, tset, mode, e)))
                break
        else:
            tol_direct = 1e-10
        d = float(np.max(np.abs(fh - mapped)[mask])) / scale
        if tol_direct is not None:
            maxerr['direct'] = max(maxerr.get('direct', 0.0), d)
            cov['direct_checks'] = cov.get('direct_checks', 0) + 1
            if d > tol_direct:
                bad.append(('direct', '%s, step %d (%s %s): transformed-grid solution (incl. boundary values) differs from the mapped original by relative %.3g (allowed %.3g)' % (
                    label, step + 1, tset, mode, d, tol_direct)))
                break
    cov['pair:%s' % kind] = 1
    if case.get('geo'):
        cov['geo:' + case['geo']] = 1
    cov['label:%s' % (label if kind == 'embed' else kind + ':' + P['cls'])] = 1
    cov['tset:%s:%s' % (tset, mode)] = 1
    if P['spec']['periodic']:
        cov['with_periodic'] = 1
    kvL = gen.bc_kind_vector(gL, P['spec'])
    key = '%s/%s/%s/%s/%s/%s/%s' % (label, P['n'], P['fams'], kvL, tset, mode, info)
    sample = {'pair': label, 'original': {'cls': P['cls'], 'n': P['n'], 'families': P['fams'], 'bc': kvL}, 'transform': info,
              'terms': tset, 'mode': mode, 'steps': nsteps, 'limiter': limname}
    if bad:
        mech = '%s/%s' % (kind, bad[0][0])
        if upw_per:
            # discriminating condition: identical pair with zero velocity through the periodic boundary faces of the shift axis agrees
            k = case['axis']
            P2 = dict(P)
            P2['u'] = [a.copy() for a in P['u']]
            idx = [slice(None)] * P2['u'][k].ndim
            nk = P2['vals'].shape[k]
            idx[k] = sorted(set([0, nk, (nk - info['shift']) % nk]))
            P2['u'][k][tuple(idx)] = 0.0
            Q2, lift2, _ = shift(P2, k, info['shift'])
            if P2.get('spec2') is not None:
                Q2['spec2'] = shift(dict(P2, spec=P2['spec2']), k, info['shift'])[0]['spec']
            l2, _g = execute(P2, tset, mode, limname, dts, alphas, hmin)
            h2, _g2 = execute(Q2, tset, mode, limname, dts, alphas, hmin)
            ok = True
            for lo, hi in zip(l2, h2):
                mp = lift2(lo['full'])
                sc = float(np.max(np.abs(mp[mask]))) + 1e-300
                if float(np.max(np.abs(hi['full'] - mp)[mask])) / sc > 1e-8:
                    ok = False
            if ok:
                mech = KEY_UPW_PER
        return {'verdict': 'violated', 'mech': mech, 'key': key, 'cov': cov, 'maxerr': maxerr, 'nontrivial': True,
                'msg': '; '.join(b[1] for b in bad)[:700], 'witness': {'case': case, 'sample': sample}, 'sample': sample}
    return {'verdict': 'held', 'key': key, 'cov': cov, 'maxerr': maxerr, 'nontrivial': P['ffam'] != 'const', 'sample': sample}


TSETS = ['D', 'D+central', 'D+upwind', 'D+upwind+tvd', 'D+upwind+src']


def plan(tier, seed):
    per = 1 if tier == 'quick' else 25
    cases = []
    i = 0
    for rep in range(per):
        for tset in TSETS:
            for mode in ('implicit', 'explicit'):
                if mode == 'explicit' and 'src' in tset:
                    continue
                for pi in range(len(EMBED)):
                    cases.append({'kind': 'embed', 'pair': pi, 'tset': tset, 'mode': mode, 'seed': [seed, 8, i]})
                    i += 1
                for cls, nd in (('Grid2D', 2), ('Grid3D', 3)):
                    for perm in itertools.permutations(range(nd)):
                        if perm == tuple(range(nd)):
                            continue
                        cases.append({'kind': 'permute', 'cls': cls, 'perm': list(perm), 'tset': tset, 'mode': mode, 'seed': [seed, 8, i]})
                        i += 1
                for cls, nd in (('Grid1D', 1), ('Grid2D', 2), ('Grid3D', 3)):
                    for k in range(nd):
                        cases.append({'kind': 'mirror', 'cls': cls, 'axis': k, 'tset': tset, 'mode': mode, 'seed': [seed, 8, i]})
                        i += 1
                        cases.append({'kind': 'shift', 'cls': cls, 'axis': k, 'tset': tset, 'mode': mode, 'seed': [seed, 8, i]})
                        i += 1
    # every case a second time with the boundary data of one side changed between two steps (implicit histories; cheap)
    extra = []
    for c in cases:
        if c['mode'] == 'implicit':
            c2 = dict(c, bc_edit=True, seed=[seed, 8, 500000 + c['seed'][2]])
            extra.append(c2)
    cases = cases + extra
    # embedding / relabelling / mirroring on far-off, negative, thin-ended, wildly graded and nanometre grids (implicit, residual-decided)
    geo_cases = []
    gi = 0
    for c in cases[:]:
        if c['mode'] == 'implicit' and c['kind'] != 'shift' and not c.get('bc_edit'):
            geo_cases.append(dict(c, geo=['offset', 'negative', 'thinend', 'offset', 'wild'][gi % 5], seed=[seed, 8, 700000 + c['seed'][2]]))
            gi += 1
    cases = cases + geo_cases
    seam = [dict(c, seam=True, seed=[seed, 8, 900000 + c['seed'][2]]) for c in cases if c['kind'] == 'embed' and not c.get('geo') and not c.get('bc_edit')]
    cases = cases + seam
    step = 12
    return [cases[j:j + step] for j in range(0, len(cases), step)]


def floors(agg, tier):
    out = []
    for k, need in (('pair:embed', 60), ('pair:permute', 40), ('pair:mirror', 40), ('pair:shift', 40), ('with_periodic', 30), ('geo:offset', 15), ('geo:negative', 8), ('geo:thinend', 8), ('bc_edit_between_steps:left', 5), ('bc_edit_between_steps:right', 5), ('bc_edit_between_steps:bottom', 5), ('bc_edit_between_steps:top', 5), ('bc_edit_between_steps:back', 3), ('bc_edit_between_steps:front', 3), ('periodic_flag:low', 20), ('periodic_flag:high', 20), ('periodic_flag:both', 20),
                    ('residual_checks', 100), ('direct_checks', 100)):
        if agg['cov'].get(k, 0) < need:
            out.append('%s < %d' % (k, need))
    for lowcls, highcls, p in EMBED:
        if agg['cov'].get('label:%s->%s@%d' % (lowcls, highcls, p), 0) < 5:
            out.append('embedding %s->%s@%d < 5' % (lowcls, highcls, p))
    for t in TSETS:
        if agg['cov'].get('tset:%s:implicit' % t, 0) < 10:
            out.append('tset:%s:implicit < 10' % t)
    return out
