"""C06 - uniform fields stay uniform: constants are diffusion-free and advect as c*div(u).

Operator-level monitor (all sign patterns), steady-state monitor through solvePDE with a spy solver, and the
cell-locality of the source terms."""
import numpy as np
import scipy.sparse as sp

import pyfvtool as pf

from ..oracles import CLASSES, NDIM, LIMITERS, SIDES, Geom
from .. import gen, ops
from ..common import SpySolver, residual_err, interior_index, nerr, absmv, to_list, TOL, solve_with

ID = 'C06'
RULE = ('cases = (grid class, N, spacing family, kind in {operator identities on a constant field for diffusion / central / '
        'upwind / TVD x 16 limiters with every velocity sign pattern; steady state of solvePDE for a uniform field with matching '
        'Dirichlet / no-flux / Robin / periodic sides in a discretely divergence-free flow (stream-function, radial q/r^p, uniform '
        'Cartesian) for dt over 12 decades, alpha scalar or field; source terms alone}); non-trivial = c != 0 and coefficient '
        'field not identically zero; distinct by (class, N, families, kind, flow family, BC vector, sign-pattern hash)')
ASSUMPTIONS = ['steady-state verdict is residual based (uniform field plugged into the system captured by the spy solver); the '
               'direct comparison is applied only when the 1-norm condition number of the captured system is below 1e10']


def run_op(case, rng, cls, faces, meta, g, m):
    cov, maxerr, bad = {}, {}, []
    rows = interior_index(g.dims)
    c = float(rng.choice([-1.0, 1.0]) * 10 ** rng.uniform(-12, 12))
    ones = np.full(g.full_shape(), c)
    D, _ = gen.face_arrays(rng, g, str(rng.choice(['sign', 'random'])) if case.get('ufam') != 'int' else 'int', positive=True)
    u, ufam = gen.face_arrays(rng, g, case.get('ufam', 'sign'))
    uf = gen.facevar(pf, m, u)
    cov['ufam:' + ufam] = 1
    x = ones.ravel()
    with np.errstate(all='ignore'):
        Md = sp.csr_array(pf.diffusionTerm(gen.facevar(pf, m, D)))
        e = nerr((Md @ x)[rows], 0.0, absmv(Md, x)[rows])
        maxerr['diffusion-const'] = e
        if not (e <= TOL):
            bad.append(('diffusion-const', 'diffusionTerm applied to the constant field %g is not zero (normalised %.3g)' % (c, e)))
        u0 = [a.copy() for a in u]                      # pristine copies: the reference must not depend on what builders did to `uf`
        div = np.asarray(pf.divergenceTerm(gen.facevar(pf, m, u0))).ravel()[rows]
        for rnd in (1, 2, 3):                           # second round: the same FaceVariable object after every builder has seen it
            if rnd == 3:
                # third round: the velocity object edited IN PLACE (u.xvalue[:] = ...), operators rebuilt from it
                if bad or uf._xvalue.dtype.kind != 'f':
                    break
                for a_ in gen.facevar_arrays(uf, g.nd):
                    a_ *= -0.5
                u0 = [-0.5 * a for a in u0]
                div = np.asarray(pf.divergenceTerm(gen.facevar(pf, m, u0))).ravel()[rows]
                cov['op_after_inplace_edit'] = 1
            for name, builder in (('upwind', pf.convectionUpwindTerm), ('central', pf.convectionTerm)):
                M = sp.csr_array(builder(uf))
                lhs = (M @ x)[rows]
                sc = absmv(M, x)[rows]
                e = nerr(lhs, c * div, sc + np.abs(c * div))
                maxerr[name + '-const'] = max(maxerr.get(name + '-const', 0.0), e)
                cov['op:' + name] = 1
                if not (e <= TOL):
                    i = int(np.argmax(np.abs(lhs - c * div) / np.where(sc > 0, sc, 1)))
                    bad.append((name + '-const', '%s convection of the constant %g (evaluation %d with the same velocity object): cell %r gives %.12g, c*div(u) = %.12g (normalised %.3g)' % (
                        name, c, rnd, tuple(map(int, np.unravel_index(int(rows[i]), g.full_shape()))), lhs[i], c * div[i], e)))
            if rnd == 1:
                pf.convectionTVDupwindRHSTerm(uf, pf.CellVariable(m, ones.copy()), pf.fluxLimiter('SUPERBEE'))
            if bad:
                break
        phi = pf.CellVariable(m, ones.copy())
        for name in LIMITERS:
            rhs = np.asarray(pf.convectionTVDupwindRHSTerm(uf, phi, pf.fluxLimiter(name)))
            cov['tvd_const_limiters'] = cov.get('tvd_const_limiters', 0) + 1
            if np.any(rhs != 0) or not np.all(np.isfinite(rhs)):
                bad.append(('tvd-const', 'TVD correction of a constant field is not zero (limiter %s): max |rhs| = %r' % (name, float(np.nanmax(np.abs(rhs))))))
                break
    pattern = hash(tuple(np.sign(a).astype(int).tobytes() for a in u)) & 0xFFFF
    return bad, cov, maxerr, 'op/%s/%d' % (ufam, pattern), {'c': c, 'u_family': ufam}, c != 0 and any(np.any(a != 0) for a in u)


def matching_bc(rng, g, c, periodic):
    """BC spec whose data are satisfied by the uniform field c"""
    spec = {'periodic': list(periodic), 'sides': {}}
    for k in range(g.nd):
        for j, side in enumerate(SIDES[k]):
            sh = g.side_shape(k)
            kind = str(rng.choice(['D', 'N0', 'R']))
            if kind == 'D':
                b = np.ones(sh) * float(rng.choice([1.0, 2.5, -1.0]))
                a = np.zeros(sh)
            elif kind == 'N0':
                a, b = np.ones(sh), np.zeros(sh)
            else:
                a = np.exp(rng.normal(0, 1, sh))
                b = np.exp(rng.normal(0, 1, sh)) * (-1.0 if j == 0 else 1.0)
            spec['sides'][side] = {'kind': kind, 'a': a, 'b': b, 'c': b * c}
    return spec


def make_flow(rng, g, periodic):
    fam = str(rng.choice(['stream', 'stream', 'radial', 'uniform', 'zero', 'axis']))
    u = None
    if fam == 'stream':
        u = ops.stream_flow(rng, g, periodic_axes=periodic, amp=10 ** rng.uniform(-1, 1), walls=bool(rng.random() < 0.6))
    elif fam == 'radial':
        u = ops.radial_flow(g, float(rng.choice([-1, 1]) * 10 ** rng.uniform(-1, 1)))
    elif fam == 'uniform':
        u = ops.uniform_flow(rng, g)
    elif fam == 'axis':
        u, _k = ops.axis_flow(rng, g)
    if u is None:
        fam = 'zero'
        u = [np.zeros(g.face_shape(k)) for k in range(g.nd)]
    return u, fam


def run_steady(case, rng, cls, faces, meta, g, m):
    cov, maxerr, bad = {}, {}, []
    c = float(rng.choice([-1.0, 1.0]) * 10 ** rng.uniform(-6, 6))
    capable = [k for k in range(g.nd) if gen.periodic_ok(cls, k)]
    periodic = [k for k in capable if rng.random() < 0.3]
    spec = matching_bc(rng, g, c, periodic)
    u, flowfam = make_flow(rng, g, periodic)
    dive = ops.discrete_div_error(m, g, u)
    if dive > 1e-11:
        return None, cov, maxerr, 'steady', {}, False, 'generated flow not discretely divergence-free (%.3g): generator problem' % dive
    BC = gen.make_bc(pf, m, g, spec)
    phi = pf.CellVariable(m, c, BC)
    dt = float(10 ** rng.uniform(-6, 6))
    if rng.random() < 0.5:
        alpha = float(10 ** rng.uniform(-2, 2))
    else:
        alpha = pf.CellVariable(m, np.exp(rng.normal(0, 1, g.dims)))
    D, _ = gen.face_arrays(rng, g, 'random', positive=True)
    scheme = str(rng.choice(['central', 'upwind', 'upwind+tvd', 'none']))
    if case.get('tunit'):
        # the same problem with time measured in another unit (slow processes in SI units: D ~ 1e-9 m2/s, steps of 1e9 s; or
        # nanosecond steps): rates x 1/T, time step x T
        Tu = float(10 ** (rng.uniform(8, 11) if rng.random() < 0.6 else rng.uniform(-11, -8)))
        D = [a / Tu for a in D]
        u = [a / Tu for a in u]
        dt = dt * Tu
        cov['time_unit:%s' % ('large' if Tu > 1 else 'small')] = 1
    uf = gen.facevar(pf, m, u)
    terms = [pf.transientTerm(phi, dt, alpha), -pf.diffusionTerm(gen.facevar(pf, m, D))]
    if scheme == 'central':
        terms.append(pf.convectionTerm(uf))
    elif scheme.startswith('upwind'):
        terms.append(pf.convectionUpwindTerm(uf))
        if scheme.endswith('tvd'):
            terms.append(pf.convectionTVDupwindRHSTerm(uf, phi, pf.fluxLimiter(str(rng.choice(LIMITERS)))))
    react_vec = beta_ = None
    if rng.random() < 0.5:
        # a reaction pair that cancels for the uniform field: beta*phi on the left, beta*c on the right
        beta_ = np.exp(rng.normal(0, 1, g.dims)) * (abs(D[0]).max() / max(g.w[0].min() ** 2, 1e-300) if rng.random() < 0.5 else 1.0 / dt)
        react_vec = pf.constantSourceTerm(pf.CellVariable(m, beta_ * c))
        terms += [pf.linearSourceTerm(pf.CellVariable(m, beta_)), react_vec]
        cov['steady_with_reaction_pair'] = 1
    # any container for the matrices, any order of the terms (later phases rebuild the transient term and keep the others)
    rest = gen.vary_terms(rng, terms[1:])
    rest = [rest[i_] for i_ in rng.permutation(len(rest))]
    terms = [terms[0]] + rest
    j_ = int(rng.integers(0, len(rest) + 1))
    terms_first = rest[:j_] + [terms[0]] + rest[j_:]
    spy = SpySolver()
    with np.errstate(all='ignore'):
        solve_with(pf, spy, phi, terms_first, default_path=bool(case['seed'][-1] % 2))
    M, b, x = spy.last
    resolve = None
    if np.all(np.isfinite(x)) and rng.random() < 0.6:
        # the very same list handed to solvePDE again (the variable still holds the uniform field, to rounding): same system
        phi.value = np.full(g.dims, c)
        spy_r = SpySolver()
        with np.errstate(all='ignore'):
            solve_with(pf, spy_r, phi, terms_first, default_path=bool(case['seed'][-1] % 2))
        resolve = spy_r.last
    full_c = np.full(int(np.prod(g.full_shape())), c)
    # corner/edge ghost cells are decoupled dummy unknowns (value 0): take them from the solve
    rows = interior_index(g.dims)
    bnd = np.ones(len(full_c), dtype=bool)
    xc = full_c.copy()
    dummy = np.isclose(np.abs(sp.csr_array(M)).sum(axis=1), np.abs(sp.csr_array(M).diagonal())) & (b == 0)
    G = np.arange(len(full_c)).reshape(g.full_shape())
    corner_mask = np.zeros(g.full_shape(), dtype=bool)
    cnt = np.zeros(g.full_shape(), dtype=int)
    for k in range(g.nd):
        idx = [slice(None)] * g.nd
        idx[k] = [0, -1]
        cnt[tuple(idx)] += 1
    corner_mask = cnt >= 2
    xc[corner_mask.ravel()] = x[corner_mask.ravel()]
    e = residual_err(M, xc, b)
    maxerr['steady-residual'] = e
    cov['steady:%s' % scheme] = 1
    cov['flow:%s' % flowfam] = 1
    if not (e <= TOL):
        bad.append(('steady-residual', 'uniform field %g is not a solution of the system solvePDE assembled (%s, flow %s, dt %g): normalised residual %.3g' % (c, scheme, flowfam, dt, e)))
    if resolve is not None:
        Mr, br, xr = resolve
        xcr = full_c.copy()
        xcr[corner_mask.ravel()] = xr[corner_mask.ravel()]
        er = residual_err(Mr, xcr, br)
        maxerr['steady-residual-same-list-again'] = er
        cov['steady_same_list_again'] = 1
        if not (er <= TOL):
            bad.append(('steady-residual', 'the same term list solved a second time: the uniform field %g is not a solution of the system solvePDE assembled (%s, dt %g): normalised residual %.3g' % (c, scheme, dt, er)))
    n = M.shape[0]
    if n <= 500 and np.all(np.isfinite(x)):
        cond = np.linalg.cond(M.toarray(), 1)
        if np.isfinite(cond) and cond < 1e10:
            err = float(np.max(np.abs(np.asarray(phi.value) - c)) / abs(c))
            maxerr['steady-direct/cond'] = err / cond
            cov['steady_direct_checked'] = 1
            if err > 1e-12 * cond + 1e-13:
                bad.append(('steady-direct', 'solvePDE moved the uniform field %g by relative %.3g (cond %.3g)' % (c, err, cond)))
        else:
            cov['steady_direct_skipped_illconditioned'] = 1
    if not bad and isinstance(alpha, pf.CellVariable) and np.all(np.isfinite(x)):
        # next step of the same loop: the storage coefficient (a CellVariable) is refreshed IN PLACE, same phi, same dt - the
        # uniform field must still be a steady state of the system solvePDE assembles
        alpha.value = np.asarray(alpha.value) * np.exp(rng.normal(0, 0.7, g.dims))
        phi.value = np.full(g.dims, c)
        terms2 = [pf.transientTerm(phi, dt, alpha)] + terms[1:]
        spy2 = SpySolver()
        with np.errstate(all='ignore'):
            solve_with(pf, spy2, phi, terms2, default_path=bool(case['seed'][-1] % 2))
        M2, b2, x2 = spy2.last
        xc2 = full_c.copy()
        xc2[corner_mask.ravel()] = x2[corner_mask.ravel()]
        e2 = residual_err(M2, xc2, b2)
        maxerr['steady-residual-after-alpha-edit'] = e2
        cov['steady_alpha_edited_in_place'] = 1
        if not (e2 <= TOL):
            bad.append(('steady-residual', 'after refreshing the storage coefficient alpha in place, the uniform field %g is no longer a solution of the system solvePDE assembles (%s, dt %g): normalised residual %.3g' % (c, scheme, dt, e2)))
    if not bad and np.all(np.isfinite(x)):
        # the loop goes on with NEW boundary data. (a) every Dirichlet / Robin side gets the data of another constant c1, assigned
        # through the attribute c alone (nothing else touched, no value edit): the steady problem then has the uniform solution c1.
        # (b) one such side is insulated with fixedGradient(0, scale_coeffs=s): whatever uniform field is there stays.
        open_sides = [sd_ for sd_, v_ in spec['sides'].items() if v_['kind'] != 'N0' and not any(sd_ in SIDES[k_] for k_ in periodic)]
        which = str(rng.choice(['new-data', 'insulate']))
        if open_sides and which == 'new-data':
            c1 = float(c * rng.choice([-0.5, 2.0, 3.0]) + rng.choice([0.0, 1.0]) * abs(c))
            for sd_ in open_sides:
                getattr(phi.BCs, sd_).c = spec['sides'][sd_]['b'] * c1
            spy3 = SpySolver()
            with np.errstate(all='ignore'):
                # steady problem: no transient term; the reaction pair, if any, now cancels for c1
                steady_terms = [(pf.constantSourceTerm(pf.CellVariable(m, beta_ * c1)) if t_ is react_vec else t_) for t_ in terms[1:]]
                solve_with(pf, spy3, phi, steady_terms, default_path=bool(case['seed'][-1] % 2))
            M3, b3, x3 = spy3.last
            full_c1 = np.full(len(full_c), c1)
            full_c1[corner_mask.ravel()] = np.where(np.isfinite(x3[corner_mask.ravel()]), x3[corner_mask.ravel()], 0.0)      # decoupled dummy unknowns
            e3 = residual_err(M3, full_c1, b3)
            maxerr['steady-residual-new-boundary-data'] = e3
            cov['steady_new_boundary_data'] = 1
            if not (e3 <= TOL):
                bad.append(('steady-residual', 'boundary data of sides %r reassigned (face.c = b*c1) for the constant c1 = %g: the uniform field c1 does not solve the steady system solvePDE assembles (normalised residual %.3g)' % (open_sides, c1, e3)))
        elif open_sides and which == 'insulate':
            sd_ = str(rng.choice(open_sides))
            getattr(phi.BCs, sd_).fixedGradient(0.0, scale_coeffs=float(rng.choice([1.0, -2.0, 0.25, 1e3])))
            cval = float(np.asarray(phi.value).ravel()[0])
            phi.value = np.full(g.dims, c)
            spy4 = SpySolver()
            with np.errstate(all='ignore'):
                solve_with(pf, spy4, phi, [pf.transientTerm(phi, dt, alpha)] + terms[1:], default_path=bool(case['seed'][-1] % 2))
            M4, b4, x4 = spy4.last
            xc4 = full_c.copy()
            xc4[corner_mask.ravel()] = x4[corner_mask.ravel()]
            e4 = residual_err(M4, xc4, b4)
            maxerr['steady-residual-after-insulating'] = e4
            cov['steady_side_insulated'] = 1
            if not (e4 <= TOL):
                bad.append(('steady-residual', 'side %s insulated with fixedGradient(0, scale_coeffs=...): the uniform field %g is no longer a solution of the system solvePDE assembles (normalised residual %.3g)' % (sd_, c, e4)))
    kv = gen.bc_kind_vector(g, spec)
    return bad, cov, maxerr, 'steady/%s/%s/%s' % (scheme, flowfam, kv), {'c': c, 'dt': dt, 'scheme': scheme, 'flow': flowfam, 'bc': kv}, True, None


def run_source(case, rng, cls, faces, meta, g, m):
    cov, maxerr, bad = {}, {}, []
    for _ in range(30):
        spec = gen.gen_bc_spec(rng, g)
        if gen.bc_nonsingular(g, spec):
            break
    BC = gen.make_bc(pf, m, g, spec)
    bexp = rng.uniform(-3, 3) if not case.get('tunit') else rng.uniform(-13, -8)      # rate constants of 1e-9 1/s are ordinary in SI units
    beta = rng.normal(0, 1, g.dims) * 10 ** bexp
    beta = np.where(np.abs(beta) < 1e-3 * 10 ** bexp, 10 ** bexp, beta)
    gamma = rng.normal(0, 1, g.dims) * 10 ** (rng.uniform(-3, 3) if not case.get('tunit') else rng.uniform(-16, -6))
    if case.get('tunit'):
        cov['source_small_rates'] = 1
    phi = pf.CellVariable(m, rng.normal(0, 1, g.dims), BC)
    Mb = sp.csr_array(pf.linearSourceTerm(pf.CellVariable(m, beta.copy())))
    vg = np.asarray(pf.constantSourceTerm(pf.CellVariable(m, gamma.copy())))
    rows = interior_index(g.dims)
    dense = Mb.toarray()
    exp = np.zeros_like(dense)
    exp[rows, rows] = beta.ravel()
    if not np.array_equal(dense, exp):
        bad.append(('source-locality', 'linearSourceTerm is not the diagonal matrix of beta on interior cells'))
    vexp = np.zeros(dense.shape[0])
    vexp[rows] = gamma.ravel()
    if not np.array_equal(vg, vexp):
        bad.append(('source-locality', 'constantSourceTerm is not gamma on interior cells / zero on ghost cells'))
    with np.errstate(all='ignore'):
        pf.solvePDE(phi, [Mb, vg])
    ex = gamma / beta
    e = nerr(phi.value, ex, np.abs(ex))
    maxerr['source-ratio'] = e
    cov['source_solve'] = 1
    if not (e <= 1e-12):
        bad.append(('source-ratio', 'beta*phi = gamma alone does not yield gamma/beta in every cell (rel %.3g)' % e))
    if not bad:
        # the same cell-local problem written the way term lists look in practice: the source split over two vector terms, the
        # matrix in any sparse container, the terms in any order - and the list solved again as it stands (next sweep of a loop)
        t_ = rng.uniform(0.2, 0.8, g.dims)
        v1 = np.asarray(pf.constantSourceTerm(pf.CellVariable(m, gamma * t_)))
        v2 = np.asarray(pf.constantSourceTerm(pf.CellVariable(m, gamma * (1.0 - t_))))
        ex2 = (gamma * t_ + gamma * (1.0 - t_)) / beta
        # the coefficient variables live on in the caller's model and are refreshed for the next sweep after the terms were built
        bv_, gv_ = pf.CellVariable(m, beta.copy()), pf.CellVariable(m, gamma * t_)
        lin_, v1 = pf.linearSourceTerm(bv_), pf.constantSourceTerm(gv_)
        bv_.value = beta * 3.0 + 1.0
        gv_.value[...] = -gamma
        bv_.apply_BCs()
        cov['source_coefficients_refreshed_after_build'] = 1
        tl = gen.vary_terms(rng, [lin_, v1, v2], p=0.5)
        tl = [tl[i_] for i_ in rng.permutation(3)]
        cont = type(tl[[i_ for i_, t in enumerate(tl) if getattr(t, 'ndim', 1) == 2][0]]).__name__
        for rnd_ in range(3):
            with np.errstate(all='ignore'):
                pf.solvePDE(phi, tl)
            e = nerr(phi.value, ex2, np.abs(ex2))
            maxerr['source-ratio-split'] = max(maxerr.get('source-ratio-split', 0.0), e)
            cov['source_solve_split_list:%s' % cont] = 1
            if not (e <= 1e-12):
                bad.append(('source-ratio', 'beta*phi = gamma1 + gamma2 (matrix as %s, solve #%d of the same term list) does not yield (gamma1+gamma2)/beta in every cell (rel %.3g)' % (cont, rnd_ + 1, e)))
                break
    return bad, cov, maxerr, 'source/' + gen.bc_kind_vector(g, spec), {'beta_head': to_list(beta.ravel()[:4])}, True, None


def run_case(case):
    rng = gen.rng_for(*case['seed'])
    cls = case['cls']
    nd = NDIM[cls]
    gfam, gopts = gen.geo_opts(rng, case.get('geo'))
    faces, meta = gen.gen_grid(rng, cls, nmin=1 if not case.get('geo') else 2, nmax=case.get('nmax', 5 if nd < 3 else 4), family=gfam, opts=gopts)
    g = Geom(cls, faces)
    m = gen.build_mesh(pf, cls, faces)
    kind = case['kind']
    note = None
    if kind == 'op':
        bad, cov, maxerr, k2, extra, nontrivial = run_op(case, rng, cls, faces, meta, g, m)
    elif kind == 'steady':
        bad, cov, maxerr, k2, extra, nontrivial, note = run_steady(case, rng, cls, faces, meta, g, m)
    else:
        bad, cov, maxerr, k2, extra, nontrivial, note = run_source(case, rng, cls, faces, meta, g, m)
    cov['kind:%s:%s' % (kind, cls)] = 1
    if case.get('geo'):
        cov['geo:' + case['geo']] = 1
    key = '%s/%s/%s/%s/%s/%s' % (cls, meta['n'], meta['family'], k2, case.get('geo'), case.get('tunit'))
    sample = dict({'grid': gen.describe_grid(meta, faces), 'kind': kind}, **extra)
    if bad is None:
        return {'verdict': 'inconclusive', 'key': key, 'msg': note, 'cov': cov, 'nontrivial': False}
    if bad:
        return {'verdict': 'violated', 'mech': '%s/%s' % (cls, bad[0][0]), 'key': key, 'cov': cov, 'maxerr': maxerr, 'nontrivial': True,
                'msg': '; '.join(b[1] for b in bad)[:700],
                'witness': {'cls': cls, 'faces': [to_list(f) for f in faces], 'case': case, 'extra': extra}, 'sample': sample}
    return {'verdict': 'held', 'key': key, 'cov': cov, 'maxerr': maxerr, 'nontrivial': nontrivial, 'sample': sample}


def plan(tier, seed):
    per = {'op': 12, 'steady': 16, 'source': 4} if tier == 'quick' else {'op': 300, 'steady': 400, 'source': 60}
    chunks = []
    for ci, cls in enumerate(CLASSES):
        cases = []
        i = 0
        for kind, n in per.items():
            for rep in range(n):
                cases.append({'cls': cls, 'kind': kind, 'seed': [seed, 6, ci, i], 'ufam': ['sign', 'random', 'sign', 'const'][rep % 4]})
                i += 1
            for rep in range(max(3, n // 2) if kind != 'op' else (n if NDIM[cls] > 1 else 3 * n)):       # integer-typed coefficient arrays, special geometries, other time units
                c_ = {'cls': cls, 'kind': kind, 'seed': [seed, 6, ci, i], 'ufam': 'sign'}
                if kind == 'op':
                    if rep % 3 != 2:
                        c_['ufam'] = 'int'
                    else:
                        c_['geo'] = ['int', 'jitter', 'nano', 'mega', 'offset', 'negative', 'wild'][(rep // 3) % 7]
                else:
                    c_['tunit'] = True
                cases.append(c_)
                i += 1
        step = 16 if NDIM[cls] == 3 else 40
        for j in range(0, len(cases), step):
            chunks.append(cases[j:j + step])
    return chunks


def floors(agg, tier):
    out = []
    for cls in CLASSES:
        for kind, need in (('op', 10), ('steady', 10), ('source', 3)):
            if agg['cov'].get('kind:%s:%s' % (kind, cls), 0) < need:
                out.append('kind:%s:%s < %d' % (kind, cls, need))
    for k in ('steady_new_boundary_data', 'steady_side_insulated', 'op_after_inplace_edit', 'steady_alpha_edited_in_place', 'ufam:int', 'geo:int', 'geo:jitter', 'time_unit:large', 'time_unit:small', 'source_small_rates', 'steady:central', 'steady:upwind', 'steady:upwind+tvd', 'flow:stream', 'flow:radial', 'flow:uniform', 'steady_direct_checked'):
        if agg['cov'].get(k, 0) < 5:
            out.append('%s < 5' % k)
    return out
