"""C13 - flux limiters compute the published formulas, are total and within TVD bounds.

Post-condition monitor on every FL(r) evaluation of the workload against the published closed
forms evaluated in exact rational arithmetic (oracles.limiter_exact), plus a finiteness monitor on
convectionTVDupwindRHSTerm for all small integer-valued fields."""
import io
import os
import itertools
import math
from contextlib import redirect_stdout
from fractions import Fraction

import numpy as np

import pyfvtool as pf

from ..oracles import LIMITERS, CLIP_FAMILY, limiter_exact, CLASSES, NDIM, Geom
from .. import gen
from ..common import to_list

ID = 'C13'
RULE = ('cases = (limiter name, r-family in {dense grid over [-1e3,1e3], powers of ten to +-1e100, exact rationals where '
        'numerators/denominators of the formulas vanish and their float neighbours, random arrays of shape 0-D..3-D}) and '
        '(grid class, N, limiter, velocity sign) x ALL fields with values in {-1,0,1,2} on 1-D grids (enumerated), sampled on '
        '2-D/3-D; non-trivial = r batch contains non-zero ratios / field not constant; distinct by (kind, limiter, family, '
        'shape or class+N+velocity pattern)')
ASSUMPTIONS = ['published forms as in Waterson & Deconinck / Wikipedia "Flux limiter"; limit value at removable singularities',
               'float comparison: |FL(r) - exact(r)| <= 1e-12*max(1,|exact|)']
EXHAUSTIVE = {'quick': False, 'thorough': False}

SPECIAL = [Fraction(p, q) for p in range(-8, 9) for q in (1, 2, 3, 4, 5, 7)]


def r_batch(rng, family):
    if family == 'dense':
        a = np.linspace(-1e3, 1e3, 4001)
        a = np.concatenate([a, np.linspace(-6, 6, 2401), rng.uniform(-10, 10, 500)])
    elif family == 'powers':
        e = np.arange(-100, 101, 1, dtype=float)
        a = np.concatenate([10.0 ** e, -(10.0 ** e), 2.0 ** np.arange(-300, 301, 10), -(2.0 ** np.arange(-300, 301, 10))])
    elif family == 'special':
        base = np.array([float(f) for f in SPECIAL])
        a = np.concatenate([base, np.nextafter(base, np.inf), np.nextafter(base, -np.inf), [0.0, -0.0]])
    elif family == 'random':
        a = rng.normal(0, 1, 300) * 10 ** rng.uniform(-8, 8, 300)
    else:
        raise KeyError(family)
    return a


def check_values(name, FL, r, ref_name=None, raw=None):
    """post-condition of one FL call; returns list of (mech, msg). raw: the object actually handed to the limiter when it
    is not the float array r itself (integer-typed arrays, numpy integer scalars, python ints holding the same ratios)"""
    bad = []
    r = np.asarray(r, dtype=float)
    with np.errstate(all='ignore'):
        out = FL(r if raw is None else raw)
    out = np.asarray(out)
    if out.shape != r.shape:
        bad.append(('shape', '%s: result shape %r != input shape %r' % (name, out.shape, r.shape)))
        return bad
    if raw is None and out.ndim:
        # the values returned for this batch are this batch's values for good: a later call of the same limiter object with
        # other ratios of the same shape (what a TVD loop does, sweep after sweep) must not rewrite a result that was kept
        keep, r_in = out.copy(), r.copy()
        with np.errstate(all='ignore'):
            FL(np.where(np.isfinite(r), 0.5 - r, 1.0)[::-1].copy())
        if not np.array_equal(out, keep, equal_nan=True):
            bad.append(('result-rewritten', '%s: an array returned earlier changed when the limiter was called again (shape %r)' % (name, out.shape)))
            out = keep
        if not np.array_equal(r, r_in, equal_nan=True):
            bad.append(('input-modified', '%s: the ratio array passed in was modified' % name))
    rf, of = r.ravel(), np.asarray(out, dtype=float).ravel()
    if not np.all(np.isfinite(of)):
        i = int(np.argmax(~np.isfinite(of)))
        bad.append(('nonfinite', '%s(%r) = %r' % (name, rf[i], of[i])))
    oname = ref_name or name
    ex = np.array([float(limiter_exact(oname, Fraction(float(x)))) for x in rf])
    err = np.abs(of - ex) / np.maximum(1.0, np.abs(ex))
    err = np.where(np.isfinite(of), err, 0.0)
    if np.any(err > 1e-12):
        i = int(np.argmax(err))
        bad.append(('value', '%s(%r) = %r, published form gives %r' % (name, rf[i], of[i], ex[i])))
    pos = rf > 0
    fin = np.isfinite(of)
    if np.any(fin & pos & ((of < -1e-15) | (of > np.minimum(2 * rf, 4.0) * (1 + 1e-12) + 1e-300))):
        i = int(np.argmax(fin & pos & ((of < -1e-15) | (of > np.minimum(2 * rf, 4.0) * (1 + 1e-12) + 1e-300))))
        bad.append(('tvd-bound', '%s(%r) = %r outside [0, min(2r,4)]' % (name, rf[i], of[i])))
    if oname in CLIP_FAMILY and np.any(fin & (rf <= 0) & (of != 0)):
        i = int(np.argmax(fin & (rf <= 0) & (of != 0)))
        bad.append(('clip', '%s(%r) = %r, must vanish for r<=0' % (name, rf[i], of[i])))
    return bad


def get_FL(name):
    buf = io.StringIO()
    with redirect_stdout(buf):
        FL = pf.fluxLimiter(name)
    return FL, buf.getvalue()


def _pack(bad, key, cov, sample, witness):
    if bad:
        return {'verdict': 'violated', 'mech': bad[0][0], 'key': key, 'cov': cov, 'msg': '; '.join(b[1] for b in bad)[:500],
                'witness': witness, 'sample': sample, 'nontrivial': True}
    return {'verdict': 'held', 'key': key, 'cov': cov, 'sample': sample, 'nontrivial': True}


def run_case(case):
    kind = case['kind']
    rng = gen.rng_for(*case['seed'])
    cov = {}
    if kind == 'values':
        name = case['name']
        FL, _ = get_FL(name)
        r = r_batch(rng, case['family'])
        shape = case['shape']
        if shape == 'scalar':
            bad = []
            for x in r[:: max(1, len(r) // 200)]:
                bad += check_values(name, FL, np.float64(x))
                # plain python float as well
                y = FL(float(x))
                if np.shape(y) != ():
                    bad.append(('shape', '%s(python float) returned shape %r' % (name, np.shape(y))))
                cov['fl_calls'] = cov.get('fl_calls', 0) + 2
        else:
            if shape == '1d':
                rr = r
            elif shape == '2d':
                n = (len(r) // 7) * 7
                rr = r[:n].reshape(-1, 7)
            else:
                n = (len(r) // 12) * 12
                rr = r[:n].reshape(-1, 3, 4)
            bad = check_values(name, FL, rr)
            cov['fl_calls'] = 1
            cov['fl_values'] = int(rr.size)
        one = FL(np.float64(1.0))
        if abs(float(one) - 1.0) > 1e-15:
            bad.append(('psi1', '%s(1) = %r' % (name, one)))
        mech_prefix = name + '/'
        bad = [(mech_prefix + m, s) for m, s in bad]
        return _pack(bad, 'values/%s/%s/%s' % (name, case['family'], shape), cov,
                     {'kind': 'values', 'limiter': name, 'family': case['family'], 'shape': shape, 'r_head': to_list(r[:6])},
                     {'limiter': name, 'family': case['family'], 'shape': shape})
    if kind == 'intratio':
        # gradient ratios that happen to be whole numbers, stored as such: integer arrays of every width and shape, 0-d arrays,
        # numpy integer scalars, python ints ("every finite gradient ratio", "arrays of any shape")
        name = case['name']
        FL, _ = get_FL(name)
        bad = []
        for dt in (np.int64, np.int32, np.int16, np.int8):
            vals = rng.integers(-9, 10, 60).astype(dt)
            vals[:8] = np.array([-3, -2, -1, 0, 1, 2, 3, 4], dtype=dt)
            for arr in (vals, vals.reshape(5, 12), vals.reshape(3, 1, 20), vals[:1], np.asarray(vals[5])):
                bad += check_values(name, FL, arr.astype(float), raw=arr)
                cov['fl_calls'] = cov.get('fl_calls', 0) + 1
                cov['fl_int_values'] = cov.get('fl_int_values', 0) + int(arr.size)
            for x in vals[:12]:
                bad += check_values(name, FL, float(x), raw=x)              # numpy integer scalar
                bad += check_values(name, FL, float(x), raw=int(x))         # python int
                cov['fl_int_values'] = cov.get('fl_int_values', 0) + 2
        bad = [(name + '/int/' + m_, s_) for m_, s_ in bad]
        return _pack(bad, 'intratio/%s' % name, cov, {'kind': 'intratio', 'limiter': name}, {'limiter': name, 'kind': 'intratio'})
    if kind == 'eps':
        name = case['name']
        bad = []
        for eps in (2e-16, 1e-12, 1e-300):
            buf = io.StringIO()
            with redirect_stdout(buf):
                FL = pf.fluxLimiter(name, eps)
            bad += check_values(name, FL, r_batch(rng, 'special'))
            cov['fl_calls'] = cov.get('fl_calls', 0) + 1
        # a limiter requested once WITHOUT the guard (eps = 0: somebody studying the raw formula away from its singular points) does
        # not change what the named limiter is for everybody else: the default request made afterwards is still total
        buf = io.StringIO()
        with redirect_stdout(buf), np.errstate(all='ignore'):
            raw = pf.fluxLimiter(name, 0.0)
            raw(np.array([0.5, 2.0, 7.0]))
            FLd = pf.fluxLimiter(name)
        bad += [('after-unguarded-request/' + m_, s_) for m_, s_ in check_values(name, FLd, r_batch(rng, 'special'))]
        bad += [('after-unguarded-request/' + m_, s_) for m_, s_ in check_values(name, FLd, np.array([-1.0, -2.0, -3.0, -0.5, 0.0, 1.0]))]
        cov['default_after_unguarded_request'] = 1
        bad = [(name + '/eps-arg/' + m_, s_) for m_, s_ in bad]
        return _pack(bad, 'eps/' + name, cov, {'kind': 'eps', 'limiter': name}, {'limiter': name})
    if kind == 'first-request':
        # order of requests within one interpreter: in a FRESH process the very first request of a name is the unguarded one (eps = 0),
        # the default request comes second - and must be the total, published limiter all the same. (Worker processes of this run have
        # requested every name long before, so this history needs a process of its own.)
        import subprocess
        import sys
        import json as _json
        from .. import REPO_SRC
        name = case['name']
        rr = [float(f) for f in SPECIAL] + [0.0, -0.0, 1e-300, -1e-300]
        script = ('import json, io, numpy as np\nfrom contextlib import redirect_stdout\nimport pyfvtool as pf\nr = np.array(%r)\n'
                  'with redirect_stdout(io.StringIO()), np.errstate(all="ignore"):\n    raw = pf.fluxLimiter(%r, 0.0); raw(np.array([0.5, 2.0]))\n'
                  '    FL = pf.fluxLimiter(%r); out = np.asarray(FL(r), dtype=float)\nprint(json.dumps([float(x) for x in out]))\n') % (rr, name, name)
        env = dict(os.environ, PYTHONPATH=REPO_SRC, OMP_NUM_THREADS='1')
        pr = subprocess.run([sys.executable, '-B', '-W', 'ignore', '-c', script], capture_output=True, text=True, timeout=120, env=env)
        bad = []
        if pr.returncode != 0:
            return {'verdict': 'inconclusive', 'key': 'first-request/' + name, 'msg': 'helper process failed: ' + pr.stderr[-300:], 'cov': cov, 'nontrivial': False}
        vals = np.array(_json.loads(pr.stdout.strip().splitlines()[-1]), dtype=float)
        ex = np.array([float(limiter_exact(name, Fraction(float(x)))) for x in rr])
        nf = ~np.isfinite(vals)
        if np.any(nf):
            i_ = int(np.argmax(nf))
            bad.append((name + '/first-request/nonfinite', '%s requested with eps=0 first and by default afterwards: default limiter gives %r at r = %r' % (name, vals[i_], rr[i_])))
        err = np.where(nf, 0.0, np.abs(vals - ex) / np.maximum(1.0, np.abs(ex)))
        if np.any(err > 1e-12):
            i_ = int(np.argmax(err))
            bad.append((name + '/first-request/value', '%s requested with eps=0 first and by default afterwards: psi(%r) = %r, published form %r' % (name, rr[i_], vals[i_], ex[i_])))
        cov['fresh_process_histories'] = 1
        return _pack(bad, 'first-request/' + name, cov, {'kind': 'first-request', 'limiter': name}, {'limiter': name})
    if kind == 'unknown':
        name = case['name']
        FL, printed = get_FL(name)
        r = np.concatenate([r_batch(rng, 'special'), r_batch(rng, 'random')])
        bad = check_values(name, FL, r, ref_name='SUPERBEE')
        cov['fl_unknown_name'] = 1
        bad = [('unknown-name/' + m, s) for m, s in bad]
        return _pack(bad, 'unknown/' + name, cov, {'kind': 'unknown', 'name': name}, {'name': name})
    if kind == 'tvd1d':
        cls, N, name = case['cls'], case['N'], case['name']
        rngf = gen.rng_for(case['seed'][0], 13, N, CLASSES.index(cls))
        faces, meta = gen.gen_grid(rngf, cls, n=[N], family=case.get('family', 'uniform'))
        m = gen.build_mesh(pf, cls, faces)
        FL, _ = get_FL(name)
        upat = case['upat']
        if upat == '+':
            u = np.ones(N + 1)
        elif upat == '-':
            u = -np.ones(N + 1)
        elif upat == '0':
            u = np.zeros(N + 1)
        else:
            u = np.array([(-1.0) ** i * (1 + i) for i in range(N + 1)])
        uf = gen.facevar(pf, m, [u])
        vals = [-1.0, 0.0, 1.0, 2.0]
        lo, hi = case['range']
        bad = []
        n = 0
        prev_field, live = None, None
        for idx, field in enumerate(itertools.product(vals, repeat=N + 2)):
            if idx < lo:
                continue
            if idx >= hi:
                break
            phi = pf.CellVariable(m, np.array(field))
            with np.errstate(all='ignore'):
                rhs = pf.convectionTVDupwindRHSTerm(uf, phi, FL)
                # the long-lived variable of a time loop: refreshed IN PLACE with the previous field of the enumeration (update_value /
                # assignment to .value keep the array object), term rebuilt - must be finite and equal to the term of a fresh variable
                if prev_field is not None:
                    if idx % 2:
                        live.update_value(pf.CellVariable(m, np.array(field)))
                    else:
                        live.value = np.array(field)[1:-1]
                        live._value[0], live._value[-1] = field[0], field[-1]
                    rhs_live = pf.convectionTVDupwindRHSTerm(uf, live, FL)
                    cov['tvd_calls_on_refreshed_variable'] = cov.get('tvd_calls_on_refreshed_variable', 0) + 1
                    if not np.array_equal(np.asarray(rhs_live), np.asarray(rhs), equal_nan=True):
                        bad.append(('%s/tvd-stale-after-refresh' % name, 'TVD RHS of a variable refreshed in place differs from that of a fresh variable with the same values: %s N=%d limiter=%s u=%s field=%r (previous %r) -> %r vs %r' % (
                            cls, N, name, upat, field, prev_field, to_list(rhs_live), to_list(rhs))))
                else:
                    live = pf.CellVariable(m, np.array(field))
                    pf.convectionTVDupwindRHSTerm(uf, live, FL)
                prev_field = field
            n += 1
            if not np.all(np.isfinite(rhs)):
                bad.append(('%s/tvd-nonfinite' % name, 'TVD RHS non-finite: %s N=%d limiter=%s u=%s field=%r -> %r' % (
                    cls, N, name, upat, field, to_list(rhs))))
                if len(bad) > 3:
                    break
        cov['tvd_fields:' + cls] = n
        cov['tvd_calls'] = n
        return _pack(bad, 'tvd1d/%s/%d/%s/%s/%d' % (cls, N, name, upat, lo), cov,
                     {'kind': 'tvd1d', 'cls': cls, 'N': N, 'limiter': name, 'u': upat, 'fields': '%d..%d of 4^%d' % (lo, hi, N + 2)},
                     {'cls': cls, 'N': N, 'limiter': name, 'upat': upat, 'faces': to_list(faces[0])})
    if kind == 'tvdnd':
        cls, name = case['cls'], case['name']
        faces, meta = gen.gen_grid(rng, cls, nmin=1, nmax=3)
        m = gen.build_mesh(pf, cls, faces)
        g = Geom(cls, faces)
        FL, _ = get_FL(name)
        bad = []
        n = 0
        for rep in range(case.get('reps', 20)):
            full = rng.integers(-1, 3, g.full_shape()).astype(float)
            us, _ = gen.face_arrays(rng, g, 'sign')
            us = [np.sign(a) * (1 + (np.abs(a) > 1)) for a in us]
            phi = pf.CellVariable(m, full.copy())
            with np.errstate(all='ignore'):
                rhs = pf.convectionTVDupwindRHSTerm(gen.facevar(pf, m, us), phi, FL)
            n += 1
            if not np.all(np.isfinite(rhs)):
                bad.append(('%s/tvd-nonfinite' % name, 'TVD RHS non-finite on %s %r limiter=%s field=%r' % (cls, meta['n'], name, to_list(full))))
                break
        cov['tvd_fields:' + cls] = n
        cov['tvd_calls'] = n
        return _pack(bad, 'tvdnd/%s/%s/%s' % (cls, meta['n'], name), cov,
                     {'kind': 'tvdnd', 'grid': gen.describe_grid(meta, faces), 'limiter': name},
                     {'cls': cls, 'faces': [to_list(f) for f in faces], 'limiter': name})
    raise KeyError(kind)


def plan(tier, seed):
    chunks = []
    i = 0
    for name in LIMITERS:
        cases = []
        for fam in ('dense', 'powers', 'special', 'random'):
            for shape in ('scalar', '1d', '2d', '3d'):
                reps = 1 if tier == 'quick' or fam != 'random' else 20
                for rep in range(reps):
                    cases.append({'kind': 'values', 'name': name, 'family': fam, 'shape': shape, 'seed': [seed, 13, i, rep]})
                    i += 1
        chunks.append(cases)
    chunks.append([{'kind': 'eps', 'name': nm, 'seed': [seed, 13, 998, j]} for j, nm in enumerate(LIMITERS)])
    for j, nm in enumerate(LIMITERS):         # one helper process each: spread over the workers
        chunks.append([{'kind': 'first-request', 'name': nm, 'seed': [seed, 13, 996, j]}])
    chunks.append([{'kind': 'intratio', 'name': nm, 'seed': [seed, 13, 997, j]} for j, nm in enumerate(LIMITERS)])
    chunks.append([{'kind': 'unknown', 'name': nm, 'seed': [seed, 13, 999, j]}
                   for j, nm in enumerate(['superbee', 'NoSuchLimiter', '', 'minmod', 'VANLEER', 'Van Leer'])])
    Ns = [1, 2, 3] if tier == 'quick' else [1, 2, 3, 4, 5]
    onedcls = ['Grid1D', 'CylindricalGrid1D', 'SphericalGrid1D']
    for cls in onedcls:
        for N in Ns:
            total = 4 ** (N + 2)
            step = 1024
            for name in LIMITERS:
                cases = []
                for upat in ('+', '-', 'alt', '0'):
                    if upat == '0' and N > 2:
                        continue
                    for lo in range(0, total, step):
                        if N >= 5 and tier == 'thorough' and (lo // step) % 4 != (hash(name) % 4 if False else LIMITERS.index(name) % 4):
                            continue   # N=5: every limiter sees a quarter of the 16384 fields
                        cases.append({'kind': 'tvd1d', 'cls': cls, 'N': N, 'name': name, 'upat': upat,
                                      'range': [lo, min(total, lo + step)], 'seed': [seed, 13, 0, 0],
                                      'family': 'uniform' if N % 2 else 'random'})
                chunks.append(cases)
    for cls in CLASSES:
        if NDIM[cls] == 1:
            continue
        cases = [{'kind': 'tvdnd', 'cls': cls, 'name': name, 'seed': [seed, 13, 5000 + CLASSES.index(cls), j],
                  'reps': 10 if tier == 'quick' else 200}
                 for j, name in enumerate(LIMITERS)]
        chunks.append(cases)
    return chunks


def floors(agg, tier):
    out = []
    if agg['cov'].get('fl_values', 0) < 16 * 3 * 5000:
        out.append('fewer limiter values checked than planned: %d' % agg['cov'].get('fl_values', 0))
    for cls in CLASSES:
        if agg['cov'].get('tvd_fields:' + cls, 0) < (100 if tier == 'quick' else 2000):
            out.append('too few TVD fields on ' + cls)
    if agg['cov'].get('fl_int_values', 0) < 16 * 500:
        out.append('integer-typed ratios: %d values checked' % agg['cov'].get('fl_int_values', 0))
    if agg['cov'].get('tvd_calls_on_refreshed_variable', 0) < 10000:
        out.append('tvd_calls_on_refreshed_variable < 10000')
    if agg['cov'].get('fl_unknown_name', 0) < 6:
        out.append('unknown-name fallback not exercised')
    return out
