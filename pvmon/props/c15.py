"""C15 - assembly is pure and deterministic: builders never modify their inputs.

Snapshot contracts around every public builder/solver call: byte digests of everything reachable from the arguments
before and after; the same call repeated on equal inputs must return bit-identical results; returned objects must not
alias grid storage (np.shares_memory + in-place edit probe); term objects reused over a time loop."""
import copy

import os

import numpy as np
import scipy.sparse as sp

import pyfvtool as pf

from ..oracles import CLASSES, NDIM, LIMITERS, SIDES, Geom
from .. import gen
from ..purity import snapshot, diff_snap, canon, aliases, reach
from ..common import digest, to_list

ID = 'C15'
RULE = ('cases = (grid class, N, public function) for 30 public builders/solvers/constructors x 9 classes with random coefficient '
        'fields and BCs, plus reuse-of-terms time loops; each case = snapshot(inputs) / call / snapshot, a second call on equal '
        'inputs (bit-identical results), aliasing probe against all mesh arrays incl. in-place edit of the result; non-trivial = '
        'every call with non-constant inputs; distinct by (class, N, function, variant)')
ASSUMPTIONS = ['a solver may refresh the ghost layer / cached boundary term of a variable it is given when that variable was dirty; the '
               'digest of such inputs is taken over the visible state (interior values, boundary coefficient arrays, periodic flags)']


def perturb_inputs(args):
    """deterministic in-place edits of everything editable among the arguments (not the mesh); returns the number of edits"""
    from pyfvtool.boundary import BoundaryConditionsBase
    n = 0
    for x in args:
        if isinstance(x, pf.FaceVariable):
            for nm in ('_xvalue', '_yvalue', '_zvalue'):
                a = getattr(x, nm)
                if isinstance(a, np.ndarray) and a.size and a.dtype.kind == 'f':
                    a *= 1.5
                    a += 0.25
                    n += 1
        elif isinstance(x, pf.CellVariable):
            x.value = np.asarray(x.value) * 0.5 + 1.0
            n += 1
        elif isinstance(x, BoundaryConditionsBase):
            x.left.c = np.asarray(x.left.c) + 0.5
            n += 1
        elif isinstance(x, np.ndarray) and x.size and x.dtype.kind == 'f' and x.flags.writeable:
            x *= 0.5
            x += 0.125
            n += 1
    return n


def bc_objects(obj, path='o'):
    """(path, BoundaryConditions object) pairs reachable from a variable / list"""
    from pyfvtool.boundary import BoundaryConditionsBase
    out = []
    if isinstance(obj, BoundaryConditionsBase):
        out.append((path, obj))
    elif isinstance(obj, pf.CellVariable):
        out.append((path + '.BCs', obj.BCs))
    elif isinstance(obj, (list, tuple)):
        for i, o in enumerate(obj):
            out += bc_objects(o, '%s[%d]' % (path, i))
    return out


def setup(rng, cls, nmax, geo=None, per=False):
    gfam, gopts = gen.geo_opts(rng, geo)
    faces, meta = gen.gen_grid(rng, cls, nmin=1 if not geo else 2, nmax=nmax, family=gfam, opts=gopts)
    g = Geom(cls, faces)
    m = gen.build_mesh(pf, cls, faces)
    paxes = ()
    if per:
        # periodic axes (any non-radial axis, whatever its end cells look like: purity is asked of every accepted request)
        capable = [k for k in range(g.nd) if gen.periodic_ok(cls, k)]
        paxes = [k for k in capable if rng.random() < 0.5] or capable[:1]
    for _ in range(50):
        spec = gen.gen_bc_spec(rng, g, periodic_axes=paxes, lams=(1.0, -1.0, 2.5))
        if gen.bc_nonsingular(g, spec):
            break
    return faces, meta, g, m, spec


FUNCS = ['diffusionTerm', 'convectionTerm', 'convectionUpwindTerm', 'convectionUpwindTerm+uu', 'convectionTVDupwindRHSTerm',
         'linearSourceTerm', 'constantSourceTerm', 'transientTerm:scalar', 'transientTerm:ndarray', 'transientTerm:cellvar',
         'gradientTerm', 'gradientTermFixedBC', 'divergenceTerm', 'linearMean', 'arithmeticMean', 'geometricMean', 'harmonicMean',
         'upwindMean', 'boundaryConditionsTerm', 'cellValuesWithBoundaries', 'cellLocations', 'faceLocations', 'BoundaryConditions',
         'CellVariable', 'CellVariable+BC', 'FaceVariable', 'solveMatrixPDE', 'solveExplicitPDE', 'solvePDE', 'domainIntegral',
         'plotprofile', 'copy', 'fluxLimiter-call', 'celleval', 'faceeval']


# functions that receive the variable `phi` of build_call (the pending-edit variants apply to them)
PHI_FUNCS = ['convectionTVDupwindRHSTerm', 'linearSourceTerm', 'constantSourceTerm', 'transientTerm:scalar', 'transientTerm:ndarray', 'transientTerm:cellvar',
             'gradientTerm', 'gradientTermFixedBC', 'linearMean', 'arithmeticMean', 'geometricMean', 'harmonicMean', 'upwindMean', 'solveExplicitPDE',
             'domainIntegral', 'plotprofile', 'copy', 'celleval']


# functions through which boundary conditions act: also exercised with periodic axes
PER_FUNCS = ['boundaryConditionsTerm', 'cellValuesWithBoundaries', 'BoundaryConditions', 'CellVariable+BC', 'solveMatrixPDE', 'solveExplicitPDE', 'solvePDE',
             'copy', 'gradientTerm', 'upwindMean', 'linearMean', 'convectionTVDupwindRHSTerm', 'plotprofile', 'domainIntegral']


SRC_OF = {}      # id(variable) -> the variable it was updated from (dirty == 'updated')


def build_call(name, rng, m, g, spec, dirty=None):
    """returns (callable taking the argument list, argument list, objects allowed to change (visible-only), mesh list)"""
    BC = gen.make_bc(pf, m, g, spec)
    vals = np.abs(rng.normal(0, 1, g.dims)) + 0.2
    phi = pf.CellVariable(m, vals.copy(), BC)
    if dirty == 'value':
        # pending value edit through the public setter: boundary values not refreshed yet, dirty flag raised - a pure builder
        # leaves both exactly as they are (refreshing is the solvers' business)
        vals = vals * 0.5 + 1.0
        phi.value = vals
    elif dirty == 'bc':
        phi.BCs.right.c = np.asarray(phi.BCs.right.c) + 0.75
    elif dirty == 'updated':
        # the variable received its values through update_value() from another variable, which lives on and is edited later
        src_ = pf.CellVariable(m, vals * 0.5 + 1.0, gen.make_bc(pf, m, g, spec))
        phi.update_value(src_)
        vals = vals * 0.5 + 1.0
        SRC_OF[id(phi)] = src_
    elif dirty == 'zeros':
        # coefficient fields with exactly vanishing cells (impermeable regions, empty cells): guards against 0/0 must not
        # touch the caller's arrays
        vals = vals.copy()
        vals[rng.random(g.dims) < 0.4] = 0.0
        vals[tuple(0 for _ in g.dims)] = 0.0
        phi = pf.CellVariable(m, vals.copy(), BC)
    D, _ = gen.face_arrays(rng, g, 'random' if dirty != 'zeros' else 'sign', positive=True)      # 'sign': exact zeros on a quarter of the faces
    u, _ = gen.face_arrays(rng, g, 'sign')
    Df, uf = gen.facevar(pf, m, D), gen.facevar(pf, m, u)
    nfull = int(np.prod(g.full_shape()))
    if name == 'diffusionTerm':
        return (lambda a: pf.diffusionTerm(a[0])), [Df], []
    if name == 'convectionTerm':
        return (lambda a: pf.convectionTerm(a[0])), [uf], []
    if name == 'convectionUpwindTerm':
        return (lambda a: pf.convectionUpwindTerm(a[0])), [uf], []
    if name == 'convectionUpwindTerm+uu':
        uu = gen.facevar(pf, m, [np.where(x == 0, 0.0, rng.choice([-1.0, 1.0], x.shape)) for x in u])
        return (lambda a: pf.convectionUpwindTerm(a[0], a[1])), [uf, uu], []
    if name == 'convectionTVDupwindRHSTerm':
        FL = pf.fluxLimiter(str(rng.choice(LIMITERS)))
        return (lambda a: pf.convectionTVDupwindRHSTerm(a[0], a[1], FL)), [uf, phi], []
    if name == 'linearSourceTerm':
        return (lambda a: pf.linearSourceTerm(a[0])), [phi], []
    if name == 'constantSourceTerm':
        return (lambda a: pf.constantSourceTerm(a[0])), [phi], []
    if name.startswith('transientTerm'):
        kind = name.split(':')[1]
        alpha = {'scalar': 2.5, 'ndarray': np.exp(rng.normal(0, 1, g.dims)), 'cellvar': pf.CellVariable(m, np.exp(rng.normal(0, 1, g.dims)))}[kind]
        return (lambda a: pf.transientTerm(a[0], 0.3, a[1])), [phi, alpha], []
    if name == 'gradientTerm':
        return (lambda a: pf.gradientTerm(a[0])), [phi], []
    if name == 'gradientTermFixedBC':
        return (lambda a: pf.gradientTermFixedBC(a[0])), [phi], []
    if name == 'divergenceTerm':
        return (lambda a: pf.divergenceTerm(a[0])), [Df], []
    if name in ('linearMean', 'arithmeticMean', 'geometricMean', 'harmonicMean'):
        return (lambda a: getattr(pf, name)(a[0])), [phi], []
    if name == 'upwindMean':
        return (lambda a: pf.upwindMean(a[0], a[1])), [phi, uf], []
    if name == 'boundaryConditionsTerm':
        BC.left.c = np.asarray(BC.left.c) + 0.25       # pending edit: the dirty flag is raised and a pure builder must leave it raised
        return (lambda a: pf.boundaryConditionsTerm(a[0])), [BC], []
    if name == 'cellValuesWithBoundaries':
        return (lambda a: pf.boundary.cellValuesWithBoundaries(a[0], a[1])), [vals.copy(), BC], []
    if name == 'cellLocations':
        return (lambda a: pf.cellLocations(a[0])), [m], []
    if name == 'faceLocations':
        return (lambda a: pf.faceLocations(a[0])), [m], []
    if name == 'BoundaryConditions':
        return (lambda a: pf.BoundaryConditions(a[0])), [m], []
    if name == 'CellVariable':
        return (lambda a: pf.CellVariable(a[0], a[1])), [m, vals.copy()], []
    if name == 'CellVariable+BC':
        return (lambda a: pf.CellVariable(a[0], a[1], a[2])), [m, vals.copy(), BC], []
    if name == 'FaceVariable':
        v = 1.5 if rng.random() < 0.5 else [1.0, 2.0, 3.0][:g.nd] if g.nd > 1 else [1.0]
        return (lambda a: pf.FaceVariable(a[0], a[1])), [m, v], []
    if name == 'solveMatrixPDE':
        Mbc, bbc = pf.boundaryConditionsTerm(BC)
        M = sp.csr_array(Mbc + pf.linearSourceTerm(pf.CellVariable(m, 1.0)) - pf.diffusionTerm(Df))
        b = bbc + pf.constantSourceTerm(pf.CellVariable(m, 1.0))
        return (lambda a: pf.solveMatrixPDE(a[0], a[1], a[2])), [m, M, b], []
    if name == 'solveExplicitPDE':
        rhs = rng.normal(0, 1, nfull)
        if rng.random() < 0.5:
            phi.value = vals * 1.0         # dirty input: ghost refresh allowed, visible state must not change
        return (lambda a: pf.solveExplicitPDE(a[0], 1e-3, a[1])), [phi, rhs], [phi]
    if name == 'solvePDE':
        terms = [pf.transientTerm(phi, 0.5, 1.0), -pf.diffusionTerm(Df), pf.convectionUpwindTerm(gen.facevar(pf, m, [0.1 * x for x in u])),
                 pf.constantSourceTerm(pf.CellVariable(m, 1.0))]
        return (lambda a: pf.solvePDE(a[0], a[1])), [phi, terms], ['SOLUTION']
    if name == 'domainIntegral':
        return (lambda a: np.asarray(a[0].domainIntegral())), [phi], []
    if name == 'plotprofile':
        return (lambda a: a[0].plotprofile()), [phi], []
    if name == 'copy':
        return (lambda a: a[0].copy()), [phi], []
    if name == 'fluxLimiter-call':
        FL = pf.fluxLimiter(str(rng.choice(LIMITERS)))
        r = rng.normal(0, 2, (5, 3))
        return (lambda a: FL(a[0])), [r], []
    if name == 'celleval':
        return (lambda a: pf.celleval(lambda x, y: x * y + 1.0, a[0], a[1])), [phi, pf.CellVariable(m, vals * 2)], []
    if name == 'faceeval':
        return (lambda a: pf.faceeval(lambda x, y: x * y + 1.0, a[0], a[1])), [Df, uf], []
    raise KeyError(name)


FRESH_FUNCS = ['diffusionTerm', 'convectionTerm', 'convectionUpwindTerm', 'convectionUpwindTerm+uu', 'convectionTVDupwindRHSTerm', 'linearSourceTerm',
               'constantSourceTerm', 'transientTerm:cellvar', 'gradientTerm', 'divergenceTerm', 'linearMean', 'harmonicMean', 'upwindMean',
               'boundaryConditionsTerm', 'cellValuesWithBoundaries', 'cellLocations', 'faceLocations', 'solveMatrixPDE', 'solveExplicitPDE', 'solvePDE']


def digest_of_call(case, warm=False):
    """the bits one builder call returns for the inputs of `case` (regenerated from its seed), as a printable digest"""
    rng = gen.rng_for(*case['seed'])
    cls = case['cls']
    nmax = case.get('nmax', 4 if NDIM[cls] < 3 else 3)
    faces, meta, g, m, spec = setup(rng, cls, nmax, case.get('geo'), case.get('per', False))
    if warm:
        gen.warm_decoy(pf, cls, faces, force=True)
    with np.errstate(all='ignore'):
        fn, args, allowed = build_call(case['func'], rng, m, g, spec, case.get('dirty'))
        ret = fn(args)
    return repr(canon(ret))


def run_fresh(case):
    """history independence across the whole life of a process: what a builder returns in this worker - after thousands of calls on
    other grids, a sibling grid of the same shape and one with the cell counts reversed - is bit for bit what a brand-new interpreter
    returns for the same inputs as its very first call"""
    import subprocess
    import sys
    import json as _json
    inner = {k_: v_ for k_, v_ in case.items() if k_ != 'kind'}
    here = digest_of_call(inner, warm=True)
    # the fresh interpreter runs with ANOTHER string-hash seed than the workers (which are pinned to 0): set / dict iteration order
    # must not reach the bits of a result
    env = dict(os.environ, PVMON_NO_DECOY='1', PYTHONHASHSEED=str(1 + int(sum(case['seed'])) % 11))
    code = ('import sys, json\nimport pvmon\npvmon.pin_paths()\nfrom pvmon.props import c15\n'
            'print("DIGEST " + c15.digest_of_call(json.loads(sys.argv[1]), warm=False))\n')
    pr = subprocess.run([sys.executable, '-B', '-W', 'ignore', '-c', code, _json.dumps(inner)], capture_output=True, text=True, timeout=300, env=env)
    lines = [l_ for l_ in pr.stdout.splitlines() if l_.startswith('DIGEST ')]
    key = '%s/fresh/%s' % (case['cls'], case['func'])
    cov = {'fresh_process_comparisons': 1, 'cls:' + case['cls']: 1}
    if pr.returncode != 0 or not lines:
        return {'verdict': 'inconclusive', 'key': key, 'msg': 'helper process failed: ' + pr.stderr[-300:], 'cov': cov, 'nontrivial': False}
    fresh = lines[-1][len('DIGEST '):]
    sample = {'kind': 'fresh', 'function': case['func'], 'cls': case['cls']}
    if fresh != here:
        return {'verdict': 'violated', 'mech': '%s/depends-on-process-history' % case['func'], 'key': key, 'cov': cov, 'nontrivial': True,
                'msg': '%s on %s: the bits returned in a long-lived process (other grids of the same class used before, among them one with the cell counts reversed) differ from what a fresh interpreter returns for equal inputs' % (case['func'], case['cls']),
                'witness': {'case': case}, 'sample': sample}
    return {'verdict': 'held', 'key': key, 'cov': cov, 'nontrivial': True, 'sample': sample}


def run_case(case):
    if case.get('kind') == 'fresh':
        return run_fresh(case)
    rng = gen.rng_for(*case['seed'])
    cls = case['cls']
    cov, bad = {}, []
    nmax = case.get('nmax', 4 if NDIM[cls] < 3 else 3)
    faces, meta, g, m, spec = setup(rng, cls, nmax, case.get('geo'), case.get('per', False))
    if case.get('geo'):
        cov['geo:' + case['geo']] = 1
    if spec['periodic']:
        cov['periodic_cases'] = 1
    mesh0 = snapshot([m])        # the grid as built: nothing that happens in this case (set-up of variables included) may change it
    kind = case['kind']
    key = '%s/%s/%s/%s/%s%s' % (cls, meta['n'], case.get('func', kind), case.get('dirty'), case.get('geo'), '/per' if case.get('per') else '')
    sample = {'grid': gen.describe_grid(meta, faces), 'kind': kind, 'function': case.get('func')}
    with np.errstate(all='ignore'):
        if kind == 'call':
            name = case['func']
            state = rng.bit_generator.state
            dirty = case.get('dirty')
            fn, args, allowed = build_call(name, rng, m, g, spec, dirty)
            rng.bit_generator.state = state
            fn2, args2, allowed2 = build_call(name, rng, m, g, spec, dirty)      # equal inputs, separate objects
            cov['input_state:%s' % (dirty or 'clean')] = 1
            visible = [a for a in allowed if not isinstance(a, str)]
            if 'SOLUTION' in allowed:
                # solvePDE: everything but the solution variable must stay byte-identical (incl. the caller's list of terms)
                nterms = len(args[1])
                s0 = snapshot(args[1:] + [m])
                ret = fn(args)
                s1 = snapshot(args[1:] + [m])
                if len(args[1]) != nterms:
                    bad.append(('input-modified', 'solvePDE changed the length of the caller\'s term list from %d to %d' % (nterms, len(args[1]))))
            else:
                s0 = snapshot(args + [m], visible_only_for=visible)
                ret = fn(args)
                s1 = snapshot(args + [m], visible_only_for=visible)
            def _plain(o_):
                return sp.issparse(o_) or isinstance(o_, (np.ndarray, pf.FaceVariable)) or (isinstance(o_, (tuple, list)) and len(o_) > 0 and all(_plain(x_) for x_ in o_))
            ret_c0 = canon(ret) if ('SOLUTION' not in allowed and _plain(ret)) else None
            changed = diff_snap(s0, s1)
            cov['purity_calls:' + name] = 1
            cov['arrays_digested'] = len(s0)
            if changed:
                bad.append(('input-modified', '%s on %s modified its input: %s' % (name, cls, changed[:4])))
            # determinism: second call on equal inputs
            ret2 = fn2(args2)
            if canon(ret) != canon(ret2):
                bad.append(('nondeterministic', '%s on %s: two calls on equal inputs returned different bits' % (name, cls)))
            # same objects again (must still be pure)
            if 'SOLUTION' not in allowed:
                for a_ in args:
                    src_ = SRC_OF.pop(id(a_), None) if isinstance(a_, pf.CellVariable) else None
                    if src_ is not None:
                        src_.value = np.asarray(src_.value) * 3.0 - 2.0        # the source of update_value() is edited; the updated variable is not
                        cov['update_source_edited'] = 1
                # ... with other grids of the same class at work in between (same cell counts and extent but other spacing; the
                # counts in reverse order): what the function returns for THESE inputs does not depend on what it was used for meanwhile
                gen.warm_decoy(pf, cls, faces, force=True)
                cov['sibling_grids_between_repeated_calls'] = 1
                ret3 = fn(args)
                if canon(ret) != canon(ret3) and name not in ('solveExplicitPDE',):
                    bad.append(('nondeterministic', '%s on %s: repeated call on the same objects (other grids of the same class were used in between) returned different bits' % (name, cls)))
            # history independence: the inputs are edited IN PLACE (same objects, same array objects: D.xvalue[...] = ..., phi.value = ...,
            # BC.left.c = ...) and the function is called again; a third, never used set of equal inputs edited the same way is the
            # reference - "repeated calls with equal inputs return bit-identical results" whatever was built before from these objects
            if 'SOLUTION' not in allowed:
                rng.bit_generator.state = state
                fn3, args3, _a3 = build_call(name, rng, m, g, spec, dirty)
                n_ed = perturb_inputs(args) + 0 * perturb_inputs(args3)
                if n_ed:
                    ret_a, ret_c = fn(args), fn3(args3)
                    cov['history_independence_calls'] = 1
                    if canon(ret_a) != canon(ret_c):
                        bad.append(('stale-after-inplace-edit', '%s on %s: after an in-place edit of its inputs the function does not return what it returns for fresh, equal inputs (it remembers the previous build)' % (name, cls)))
            # a result the caller kept is the caller's: the later calls above (same inputs, equal inputs, edited inputs, other grids)
            # must not have rewritten it. Decided for results that are plain data (arrays, sparse matrices, tuples of them, face
            # variables); variables that share their boundary conditions with an input by design are left out.
            if ret_c0 is not None:
                cov['kept_result_probes'] = 1
                if canon(ret) != ret_c0:
                    bad.append(('result-rewritten', '%s on %s: the object returned by the first call changed while the function was called again (results share a work array)' % (name, cls)))
            # aliasing of grid storage
            hits = aliases(ret, [m])
            if hits:
                bad.append(('aliases-grid', '%s on %s returns an object aliasing grid storage: %s' % (name, cls, hits[:3])))
            # aliasing of the inputs' storage (coefficient variables, arrays, terms): a stored term must not change when its
            # coefficient variable is edited later, nor the other way round. Excluded: the solution variable solvePDE returns,
            # and boundary-condition objects that are shared by identity on purpose (constructor with a BC argument, explicit solver)
            shared_bcs = [o for _p, o in bc_objects(ret) if any(o is q for _p2, q in sum([bc_objects(x) for x in args], []))]
            in_arrs = []
            for ai, x in enumerate(args):
                if x is ret:
                    continue
                for p, a in reach(x, 'arg%d' % ai):
                    if '.domain' in p or not isinstance(a, np.ndarray) or a.size == 0:
                        continue
                    in_arrs.append((p, a))
            ihits = []
            if 'SOLUTION' not in allowed:
                for pr, ar in reach(ret, 'ret'):
                    if '.domain' in pr or not isinstance(ar, np.ndarray) or ar.size == 0 or (shared_bcs and '.BCs.' in pr):
                        continue
                    for pi_, ai_ in in_arrs:
                        if np.shares_memory(ar, ai_):
                            ihits.append('%s aliases %s' % (pr, pi_))
                cov['input_alias_probes'] = 1
            if ihits:
                bad.append(('aliases-input', '%s on %s returns an object sharing storage with its input: %s' % (name, cls, ihits[:3])))
            # in-place edit probe on the returned object, then re-digest the mesh
            ms0 = snapshot([m])
            for p, a in reach(ret, 'ret'):
                if '.domain.' in p or not isinstance(a, np.ndarray) or a.size == 0 or not a.flags.writeable:
                    continue
                try:
                    if a.dtype.kind == 'f':
                        a[...] = a * 0 - 12345.0
                    elif a.dtype.kind == 'b':
                        a[...] = ~a
                except Exception:
                    pass
            if diff_snap(ms0, snapshot([m])):
                bad.append(('edit-corrupts-grid', 'editing the object returned by %s in place changed the grid of %s' % (name, cls)))
            cov['alias_probes'] = 1
        elif kind == 'reuse':
            BC = gen.make_bc(pf, m, g, spec)
            vals = rng.normal(0, 1, g.dims)
            D, _ = gen.face_arrays(rng, g, 'random', positive=True)
            u, _ = gen.face_arrays(rng, g, 'sign')
            Df, uf = gen.facevar(pf, m, D), gen.facevar(pf, m, [0.2 * x for x in u])
            a = pf.CellVariable(m, vals.copy(), gen.make_bc(pf, m, g, spec))
            b = pf.CellVariable(m, vals.copy(), gen.make_bc(pf, m, g, spec))
            Mdiff, Mconv = -pf.diffusionTerm(Df), pf.convectionUpwindTerm(uf)
            src = pf.constantSourceTerm(pf.CellVariable(m, 1.0))
            d0 = (digest(Mdiff), digest(Mconv), digest(src))
            for step in range(5):
                pf.solvePDE(a, [pf.transientTerm(a, 0.1, 1.0), Mdiff, Mconv, src])
                pf.solvePDE(b, [pf.transientTerm(b, 0.1, 1.0), -pf.diffusionTerm(Df), pf.convectionUpwindTerm(uf),
                                pf.constantSourceTerm(pf.CellVariable(m, 1.0))])
                if (digest(Mdiff), digest(Mconv), digest(src)) != d0:
                    bad.append(('terms-modified', 'solvePDE modified a term object passed in (step %d)' % (step + 1)))
                    break
                if not np.array_equal(np.asarray(a._value), np.asarray(b._value), equal_nan=True):
                    bad.append(('reuse-differs', 'reusing term objects over a time loop gives different results than rebuilding them (step %d)' % (step + 1)))
                    break
            cov['reuse_loops'] = 1
        elif kind == 'solver-leak':
            # an external solver is used by the call that received it and by no other call (process-wide state): default solve,
            # solve with a marked external solver, default solves again - the marker must not be invoked and the bits must not change
            from scipy.sparse.linalg import spsolve
            BC = gen.make_bc(pf, m, g, spec)
            vals = rng.normal(0, 1, g.dims)
            D, _ = gen.face_arrays(rng, g, 'random', positive=True)
            Df = gen.facevar(pf, m, D)
            calls = {'n': 0}

            def marked(M_, b_):
                calls['n'] += 1
                return spsolve(M_, b_) + 1.0

            def problem():
                phi = pf.CellVariable(m, vals.copy(), gen.make_bc(pf, m, g, spec))
                return phi, [pf.transientTerm(phi, 0.2, 1.0), -pf.diffusionTerm(Df), pf.constantSourceTerm(pf.CellVariable(m, 1.0))]
            p0, t0 = problem()
            pf.solvePDE(p0, t0)
            Mbc, bbc = pf.boundaryConditionsTerm(BC)
            Mm = sp.csr_array(Mbc + pf.linearSourceTerm(pf.CellVariable(m, 1.0)) - pf.diffusionTerm(Df))
            bm = bbc + pf.constantSourceTerm(pf.CellVariable(m, 1.0))
            q0 = pf.solveMatrixPDE(m, Mm, bm)
            p1, t1 = problem()
            if rng.random() < 0.5:
                pf.solvePDE(p1, t1, externalsolver=marked)
            else:
                pf.solveMatrixPDE(m, Mm, bm, externalsolver=marked)
            used = calls['n']
            p2, t2 = problem()
            pf.solvePDE(p2, t2)
            q2 = pf.solveMatrixPDE(m, Mm, bm)
            if used != 1:
                bad.append(('external-solver-calls', 'the external solver was invoked %d times by the call that received it' % used))
            if calls['n'] != used:
                bad.append(('external-solver-leaks', 'an external solver passed to one solve was invoked %d more time(s) by later calls that did not receive it' % (calls['n'] - used)))
            if not (np.array_equal(np.asarray(p0._value), np.asarray(p2._value), equal_nan=True) and np.array_equal(np.asarray(q0._value), np.asarray(q2._value), equal_nan=True)):
                bad.append(('solve-depends-on-history', 'default solves before and after a solve with an external solver differ (equal inputs)'))
            cov['solver_leak_probes'] = 1
        else:
            raise KeyError(kind)
    cov['cls:' + cls] = 1
    gchanged = diff_snap(mesh0, snapshot([m]))
    cov['grid_digests_whole_case'] = 1
    if gchanged:
        bad.append(('grid-modified', 'the grid of %s is not what it was when built, after the calls of this case (variables with these BCs constructed, %s called): %s' % (
            cls, case.get('func', kind), gchanged[:4])))
    if bad:
        return {'verdict': 'violated', 'mech': '%s/%s' % (case.get('func', kind), bad[0][0]), 'key': key, 'cov': cov, 'nontrivial': True,
                'msg': '; '.join(b[1] for b in bad)[:700], 'witness': {'cls': cls, 'faces': [to_list(f) for f in faces], 'case': case}, 'sample': sample}
    return {'verdict': 'held', 'key': key, 'cov': cov, 'nontrivial': True, 'sample': sample}


def plan(tier, seed):
    reps = 1 if tier == 'quick' else 25
    chunks = []
    for ci, cls in enumerate(CLASSES):
        cases = []
        i = 0
        for rep in range(reps):
            for fn in FUNCS:
                cases.append({'cls': cls, 'kind': 'call', 'func': fn, 'seed': [seed, 15, ci, i]})
                i += 1
                if fn in PHI_FUNCS:
                    for dirty in ('value', 'bc', 'zeros', 'updated'):
                        cases.append({'cls': cls, 'kind': 'call', 'func': fn, 'dirty': dirty, 'seed': [seed, 15, ci, i]})
                        i += 1
                if fn in ('diffusionTerm', 'convectionTerm', 'convectionUpwindTerm', 'divergenceTerm', 'solveMatrixPDE', 'solvePDE', 'boundaryConditionsTerm',
                          'linearMean', 'harmonicMean', 'gradientTerm', 'cellLocations', 'faceLocations'):
                    for geo in ('nano', 'int'):       # badly scaled systems / special geometries must not tempt a function into touching its inputs
                        cases.append({'cls': cls, 'kind': 'call', 'func': fn, 'geo': geo, 'seed': [seed, 15, ci, i]})
                        i += 1
                if fn in PER_FUNCS and gen.periodic_ok(cls, NDIM[cls] - 1):
                    for r2 in range(2):
                        cases.append({'cls': cls, 'kind': 'call', 'func': fn, 'per': True, 'seed': [seed, 15, ci, i]})
                        i += 1
            for r2 in range(3):
                cases.append({'cls': cls, 'kind': 'reuse', 'seed': [seed, 15, ci, i]})
                i += 1
                if r2 == 0 and gen.periodic_ok(cls, NDIM[cls] - 1):
                    cases.append({'cls': cls, 'kind': 'reuse', 'per': True, 'seed': [seed, 15, ci, i]})
                    i += 1
            for r2 in range(2):
                cases.append({'cls': cls, 'kind': 'solver-leak', 'seed': [seed, 15, ci, i]})
                i += 1
        step = 19 if NDIM[cls] == 3 else 38
        for j in range(0, len(cases), step):
            chunks.append(cases[j:j + step])
    # fresh-interpreter comparisons: a helper process each, spread over the workers (they run after the other chunks are queued)
    fr = []
    for ci, cls in enumerate(CLASSES):
        picks = FRESH_FUNCS if tier != 'quick' else [FRESH_FUNCS[(3 * ci + j_) % len(FRESH_FUNCS)] for j_ in range(6)] + (['convectionTerm', 'convectionUpwindTerm'] if NDIM[cls] > 1 else []) + (['divergenceTerm', 'gradientTerm', 'diffusionTerm'] if NDIM[cls] == 3 else [])
        for j_, fn in enumerate(dict.fromkeys(picks)):
            for rep in range((3 if (NDIM[cls] > 1 and (fn.startswith('convection') or (NDIM[cls] == 3 and fn in ('divergenceTerm', 'gradientTerm', 'diffusionTerm')))) else 1) if tier == 'quick' else 4):
                fr.append({'cls': cls, 'kind': 'fresh', 'func': fn, 'per': bool(rep % 2) and gen.periodic_ok(cls, NDIM[cls] - 1), 'seed': [seed, 15, 700 + ci, j_, rep]})
    for j in range(0, len(fr), 2):
        chunks.append(fr[j:j + 2])
    return chunks


def floors(agg, tier):
    out = []
    for fn in FUNCS:
        if agg['cov'].get('purity_calls:' + fn, 0) < 9:
            out.append('purity_calls:%s < 9' % fn)
    if agg['cov'].get('solver_leak_probes', 0) < 9:
        out.append('solver_leak_probes < 9')
    for k in ('input_state:updated', 'update_source_edited', 'input_state:zeros', 'geo:nano', 'geo:int', 'input_state:clean', 'input_state:value', 'input_state:bc', 'input_alias_probes', 'history_independence_calls'):
        if agg['cov'].get(k, 0) < 100:
            out.append('%s < 100' % k)
    if agg['cov'].get('reuse_loops', 0) < 9:
        out.append('reuse_loops < 9')
    return out
