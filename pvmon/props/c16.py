"""C16 - unsupported requests fail loudly with the documented error, valid ones never do.

Exhaustive enumeration + contract on the observed outcome (value identity / exception type)."""
import itertools
import math
import warnings

import numpy as np
import scipy.sparse as sp

import pyfvtool as pf

from ..oracles import CLASSES, NDIM, LABELS, ALL_LABELS, AXKIND, SIDES, Geom
from .. import gen
from ..common import to_list

ID = 'C16'
RULE = ('bounded-exhaustive enumeration: 9 classes x {6 coordinate labels on 3 containers, 6 component labels get+set} ; '
        '9 classes x every non-empty subset of sides declared periodic x 3 entry points (constructor with BCs, apply_BCs, solvePDE); '
        '9 classes x initial-value shape families; 9 classes x constructor arities 0..7 x argument styles; BoundaryFace coefficient '
        'types; unknown equation-term objects; plus every documented form for N in 1..4 per axis (must not raise). '
        'non-trivial = every case (each is one request with a table-derived expected outcome); distinct by the request itself')
ASSUMPTIONS = ['expected outcome table derived from the coordinate-label set of each class (oracles.LABELS) and the documented '
               'exception types (AttributeError labels, ValueError radial periodic / bad shape, TypeError arity / coefficient '
               'type / unknown term)']
EXHAUSTIVE = {'quick': True, 'thorough': True}

COMP = {'x': 'xvalue', 'y': 'yvalue', 'z': 'zvalue', 'r': 'rvalue', 'theta': 'thetavalue', 'phi': 'phivalue'}
INTERNAL = ['_xvalue', '_yvalue', '_zvalue']


def small_mesh(cls, n=None):
    nd = NDIM[cls]
    n = n or [2, 3, 2][:nd]
    faces = []
    for k, kind in enumerate(AXKIND[cls]):
        if kind == 'pol':
            faces.append(np.linspace(0.3, 2.5, n[k] + 1))
        elif kind == 'ang':
            faces.append(np.linspace(0.0, 2 * math.pi, n[k] + 1))
        elif kind == 'rad':
            faces.append(np.linspace(0.5, 2.0, n[k] + 1))
        else:
            faces.append(np.linspace(0.0, 1.0 + k, n[k] + 1))
    return gen.build_mesh(pf, cls, faces), faces


def outcome(fn):
    """run fn, return ('ok', value) or ('raise', exception)"""
    try:
        with warnings.catch_warnings():
            warnings.simplefilter('ignore')
            return 'ok', fn()
    except Exception as e:  # noqa
        return 'raise', e


def viol(mech, msg, case, key):
    return {'verdict': 'violated', 'mech': mech, 'msg': msg, 'key': key, 'nontrivial': True,
            'witness': {'case': case}, 'cov': {'req:' + case['kind']: 1}, 'sample': {'request': case, 'outcome': msg}}


def held(case, key, note=''):
    return {'verdict': 'held', 'key': key, 'nontrivial': True, 'cov': {'req:' + case['kind']: 1},
            'sample': {'request': {k: v for k, v in case.items() if k != 'seed'}, 'outcome': note}}


def run_case(case):
    kind = case['kind']
    key = repr(sorted((k, str(v)) for k, v in case.items() if k != 'seed'))
    cls = case.get('cls')
    if kind == 'complabel':
        m, faces = small_mesh(cls)
        lab, mode = case['label'], case['mode']
        fv = pf.FaceVariable(m, 1.0)
        attr = COMP[lab]
        valid = lab in LABELS[cls]
        before = [getattr(fv, a) for a in INTERNAL]
        if mode == 'get':
            st, val = outcome(lambda: getattr(fv, attr))
            if valid:
                want = getattr(fv, INTERNAL[LABELS[cls].index(lab)])
                if st != 'ok' or val is not want:
                    return viol('complabel/get-valid', '%s.%s on %s: %s %r' % ('FaceVariable', attr, cls, st, val), case, key)
            else:
                if st != 'raise' or not isinstance(val, AttributeError):
                    return viol('complabel/get-foreign', 'reading FaceVariable.%s on %s did not raise AttributeError (%s %s)' % (
                        attr, cls, st, type(val).__name__), case, key)
        else:
            newval = np.full(np.shape(before[0]), 7.0)
            st, val = outcome(lambda: setattr(fv, attr, newval))
            after = [getattr(fv, a) for a in INTERNAL]
            if valid:
                ax = LABELS[cls].index(lab)
                ok = st == 'ok' and after[ax] is newval and all(after[j] is before[j] for j in range(3) if j != ax)
                if not ok:
                    return viol('complabel/set-valid', 'writing FaceVariable.%s on %s: %s; wrong internal component written' % (attr, cls, st), case, key)
            else:
                changed = [INTERNAL[j] for j in range(3) if after[j] is not before[j]]
                if st != 'raise' or not isinstance(val, AttributeError) or changed:
                    return viol('complabel/set-foreign', 'writing FaceVariable.%s on %s did not raise AttributeError (%s %s); components changed: %s' % (
                        attr, cls, st, type(val).__name__ if st == 'raise' else '', changed), case, key)
        return held(case, key)
    if kind == 'coordlabel':
        if case.get('form') == 'NL-shared-args':
            # the (N, L) constructor form, called with the very numbers that grids of the OTHER coordinate systems of the same
            # dimension were built from a moment ago in this process: the labels (and volumes) are those of THIS class
            args_ = [2, 3, 2][:NDIM[cls]] + [1.0] * NDIM[cls]
            for other in CLASSES:
                if NDIM[other] == NDIM[cls] and other != cls:
                    getattr(pf, other)(*args_)
            m = getattr(pf, cls)(*args_)
            st_v, val_v = outcome(lambda: np.asarray(m.cellvolume))
            if st_v != 'ok' or not np.all(val_v > 0):
                return viol('coordlabel/shared-args-volume', '%s(%r) built after the other %d-D classes with the same arguments: cellvolume %s' % (
                    cls, args_, NDIM[cls], 'raised %s' % type(val_v).__name__ if st_v != 'ok' else 'is not positive'), case, key)
        else:
            m, faces = small_mesh(cls)
        lab, cont = case['label'], case['container']
        obj = getattr(m, cont)
        st, val = outcome(lambda: getattr(obj, lab))
        valid = lab in LABELS[cls]
        if valid:
            want = getattr(obj, ['_x', '_y', '_z'][LABELS[cls].index(lab)])
            if st != 'ok' or val is not want:
                return viol('coordlabel/valid', '%s.%s on %s: %s' % (cont, lab, cls, st), case, key)
        elif st != 'raise' or not isinstance(val, AttributeError):
            return viol('coordlabel/foreign', '%s.%s on %s did not raise AttributeError (%s)' % (cont, lab, cls, st), case, key)
        # writing: the coordinate containers are read-only under every label (AttributeError), foreign or not; a rejected write leaves
        # nothing behind (the label reads as before)
        st2, val2 = outcome(lambda: setattr(obj, lab, np.zeros(3)))
        if st2 != 'raise' or not isinstance(val2, AttributeError):
            return viol('coordlabel/write', 'assigning %s.%s on %s: %s (expected AttributeError)' % (cont, lab, cls, (type(val2).__name__ if st2 == 'raise' else 'accepted')), case, key)
        st3, val3 = outcome(lambda: getattr(obj, lab))
        if (st3 == 'ok') != valid:
            return viol('coordlabel/write', 'after a rejected write, reading %s.%s on %s behaves differently (%s)' % (cont, lab, cls, st3), case, key)
        return held(case, key)
    if kind == 'periodic':
        m, faces = small_mesh(cls)
        sides = case['sides']
        entry = case['entry']
        radial = [s for s in sides if s in ('left', 'right') and AXKIND[cls][0] == 'rad']

        def mk():
            BC = pf.BoundaryConditions(m)
            if entry == 'ctor':
                for s in sides:
                    getattr(BC, s).periodic = True
                return pf.CellVariable(m, 1.0, BC)
            if entry.startswith('later-'):
                # the flag is set in the middle of a run: valid steps first (everything assembled, flags clean), then the request,
                # then the next step - on an ordinary variable, on one returned by the explicit solver, on one without pre-computed
                # boundary term
                if entry == 'later-noprecalc':
                    phi = pf.CellVariable(m, 1.0, BC, BCsTerm_precalc=False)
                else:
                    phi = pf.CellVariable(m, 1.0, BC)
                D1 = pf.FaceVariable(m, 1.0)
                pf.solvePDE(phi, [pf.transientTerm(phi, 1.0, 1.0), -pf.diffusionTerm(D1)])
                if entry == 'later-explicit':
                    phi = pf.solveExplicitPDE(phi, 1e-4, pf.divergenceTerm(D1 * pf.gradientTerm(phi)))
                    pf.solvePDE(phi, [pf.transientTerm(phi, 1.0, 1.0), -pf.diffusionTerm(D1)])
                pf.boundaryConditionsTerm(phi.BCs)
                for s in sides:
                    getattr(phi.BCs, s).periodic = True
                if entry == 'later-explicitstep':
                    # the step that follows the request is an explicit one
                    return pf.solveExplicitPDE(phi, 1e-4, pf.divergenceTerm(D1 * pf.gradientTerm(phi)))
                pf.solvePDE(phi, [pf.transientTerm(phi, 1.0, 1.0), -pf.diffusionTerm(D1)])
                return phi
            phi = pf.CellVariable(m, 1.0, BC)
            for s in sides:
                getattr(phi.BCs, s).periodic = True
            if entry == 'apply':
                phi.apply_BCs()
            elif entry == 'explicit':
                rhs = np.zeros(tuple(int(x) + 2 for x in m.dims))
                return pf.solveExplicitPDE(phi, 1e-4, rhs)
            else:
                pf.solvePDE(phi, [pf.transientTerm(phi, 1.0, 1.0), -pf.diffusionTerm(pf.FaceVariable(m, 1.0))])
            return phi
        st, val = outcome(mk)
        if radial:
            if st != 'raise' or not isinstance(val, ValueError):
                return viol('periodic/radial-not-rejected', '%s: periodic on %s via %s: %s %s (expected ValueError)' % (
                    cls, sides, entry, st, type(val).__name__ if st == 'raise' else 'no exception'), case, key)
        else:
            if st != 'ok':
                return viol('periodic/valid-rejected', '%s: periodic on %s via %s raised %s: %s' % (cls, sides, entry, type(val).__name__, val), case, key)
            if not np.all(np.isfinite(val.value)):
                return viol('periodic/valid-nonfinite', '%s: periodic on %s via %s produced non-finite values' % (cls, sides, entry), case, key)
        return held(case, key)
    if kind == 'shape':
        m, faces = small_mesh(cls, n=case.get('n'))
        dims = tuple(int(x) for x in m.dims)
        sh = case['shape']
        valid = case['valid']
        arg = case['scalar'] if sh == 'scalar' else np.ones(tuple(sh)) * 2.0
        st, val = outcome(lambda: pf.CellVariable(m, arg))
        if valid:
            if st != 'ok':
                return viol('shape/valid-rejected', '%s dims %r: initial value of shape %r raised %s: %s' % (cls, dims, sh, type(val).__name__, val), case, key)
            if tuple(val.value.shape) != dims or not np.all(val.value == 2.0):
                return viol('shape/valid-wrong', '%s dims %r: initial value %r not stored as the interior values' % (cls, dims, sh), case, key)
        else:
            if st != 'raise' or not isinstance(val, ValueError):
                return viol('shape/invalid-accepted', '%s dims %r: initial array of shape %r: %s %s (expected ValueError)' % (
                    cls, dims, sh, st, type(val).__name__ if st == 'raise' else 'accepted'), case, key)
        return held(case, key)
    if kind == 'arity':
        nd = NDIM[cls]
        k, style = case['arity'], case['style']
        if style == 'arrays':
            args = [np.linspace(0.1, 1.0, 3) for _ in range(k)]
        elif style == 'NL':
            args = [2] * ((k + 1) // 2) + [1.0] * (k // 2)
        else:
            args = [2.0] * k
        st, val = outcome(lambda: getattr(pf, cls)(*args))
        if st != 'raise' or not isinstance(val, TypeError):
            return viol('arity/not-TypeError', '%s(*%d %s args): %s %s (expected TypeError)' % (
                cls, k, style, st, (type(val).__name__ + ': ' + str(val)) if st == 'raise' else 'accepted'), case, key)
        return held(case, key)
    if kind == 'cellvar-arity':
        # CellVariable(mesh, value[, BC]) and nothing else: surplus positional arguments are an error, not silently swallowed
        m, faces = small_mesh(cls)
        k = case['arity']
        surplus = [5, False, None, 0.0, 'x', np.ones(2), True][case.get('what', 0) % 7]
        args = [1.0, pf.BoundaryConditions(m)][:min(k, 2)] + [surplus] * max(0, k - 2)
        st, val = outcome(lambda: pf.CellVariable(m, *args))
        if k in (1, 2):
            if st != 'ok':
                return viol('valid/cellvar-form-rejected', 'CellVariable(mesh, *%d args) on %s raised %s' % (k, cls, type(val).__name__), case, key)
        elif st != 'raise':
            return viol('arity/cellvar-accepted', 'CellVariable(mesh, value, BC, %r%s) on %s was accepted silently' % (surplus, ', ...' if k > 3 else '', cls), case, key)
        return held(case, key)
    if kind == 'facevar-arity':
        m, faces = small_mesh(cls)
        k = case['arity']
        args = [np.ones(3)] * k
        st, val = outcome(lambda: pf.FaceVariable(m, *args))
        if st != 'raise' or not isinstance(val, TypeError):
            return viol('arity/facevar-not-TypeError', 'FaceVariable(mesh, *%d args) on %s: %s %s (documented: TypeError)' % (
                k, cls, st, (type(val).__name__ + ': ' + str(val)[:80]) if st == 'raise' else 'accepted'), case, key)
        return held(case, key)
    if kind == 'facevar-form':
        # every documented FaceVariable form is accepted: a scalar of any real numeric type (python or numpy), one value per
        # direction as list / tuple / array, three component arrays
        m, faces = small_mesh(cls, n=case.get('n'))
        nd = NDIM[cls]
        what = case['what']
        scalars = {'pyfloat': 2.5, 'pyint': 3, 'npfloat64': np.float64(2.5), 'npfloat32': np.float32(2.5), 'npfloat16': np.float16(2.5),
                   'npint64': np.int64(3), 'npint32': np.int32(3), 'npint8': np.int8(3), 'npuint8': np.uint8(3)}
        if what in scalars:
            arg, expect = scalars[what], [float(scalars[what])] * nd
        else:
            per = [1.5, -2.0, 3.0][:nd]
            arg = {'list': list(per), 'tuple': tuple(per), 'array': np.array(per), 'intlist': [1, -2, 3][:nd], 'intarray': np.array([1, -2, 3][:nd])}[what]
            expect = [float(x) for x in (per if not what.startswith('int') else [1, -2, 3][:nd])]
        st, val = outcome(lambda: pf.FaceVariable(m, arg))
        if st != 'ok':
            return viol('valid/facevar-form-rejected', 'FaceVariable(mesh, %s %r) on %s %r raised %s: %s' % (what, arg, cls, list(m.dims), type(val).__name__, str(val)[:120]), case, key)
        comps = [val._xvalue, val._yvalue, val._zvalue]
        dims = [int(x) for x in m.dims]
        for j in range(nd):
            sh = tuple(d + (1 if i == j else 0) for i, d in enumerate(dims))
            a = np.asarray(comps[j])
            if a.shape != sh or not np.all(a.astype(float) == expect[j]):
                return viol('valid/facevar-form-values', 'FaceVariable(mesh, %s) on %s %r: component %d has shape %r / values %r, expected %r of %r' % (
                    what, cls, dims, j, a.shape, a.ravel()[:3].tolist(), sh, expect[j]), case, key)
        for j in range(nd, 3):
            if np.size(comps[j]):
                return viol('valid/facevar-form-values', 'FaceVariable on %s has a non-empty component %d' % (cls, j), case, key)
        return held(case, key)
    if kind == 'bcface':
        what = case['what']
        good = np.array([1.0])
        vals = {'list': [1.0], 'float': 1.0, 'int': 1, 'none': None, 'tuple': (1.0,), 'str': '1.0',
                # numpy scalars are not arrays either (what arr.mean(), arr[0] or np.float64(x) hand over)
                'npfloat64': np.float64(1.0), 'npfloat32': np.float32(1.0), 'npint64': np.int64(1), 'npbool': np.bool_(True),
                'arr.mean()': np.array([1.0, 3.0]).mean(), 'arr[0]': np.array([1.0, 3.0])[0]}
        pos = case['pos']
        args = [good, good, good]
        args[pos] = vals[what]
        st, val = outcome(lambda: pf.boundary.BoundaryFace(*args))
        if st != 'raise' or not isinstance(val, TypeError):
            return viol('bcface/not-TypeError', 'BoundaryFace with %s coefficient at position %d: %s' % (what, pos, st), case, key)
        return held(case, key)
    if kind == 'term':
        m, faces = small_mesh(cls)
        nfull = int(np.prod(np.asarray(m.dims) + 2))
        M = pf.linearSourceTerm(pf.CellVariable(m, 1.0))
        v = pf.constantSourceTerm(pf.CellVariable(m, 1.0))
        what = case['what']
        objs = {
            'none': None, 'float': 1.0, 'int': 3, 'str': 'term', 'cellvar': pf.CellVariable(m, 1.0),
            'facevar': pf.FaceVariable(m, 1.0), 'list': [M], 'array0d': np.array(1.0), 'array3d': np.ones((nfull, 1, 1)),
            'tuple1': (M,), 'tuple3': (M, v, v), 'tuple_swapped': (v, M), 'tuple_none': (None, None), 'tuple_mm': (M, M),
            'tuple_vv': (v, v), 'dict': {'M': M}, 'tuple0': (),
        }
        term = objs[what]
        phi = pf.CellVariable(m, 0.0)
        phi.BCs.left.fixedValue(1.0)
        st, val = outcome(lambda: pf.solvePDE(phi, [M, term, v]))
        if st != 'raise' or not isinstance(val, TypeError):
            return viol('term/not-TypeError', 'solvePDE with unknown term %s on %s: %s %s (documented: TypeError)' % (
                what, cls, st, (type(val).__name__ + ': ' + str(val)[:80]) if st == 'raise' else 'accepted'), case, key)
        return held(case, key)
    if kind == 'valid':
        # every documented constructor form, label and term kind accepted for N>=1
        nd = NDIM[cls]
        n = case['n']
        form = case['form']

        def run():
            if form == 'faces':
                m, faces = small_mesh(cls, n=n)
            else:
                Ls = []
                for kk in AXKIND[cls]:
                    Ls.append({'len': 1.5, 'rad': 2.0, 'ang': 2 * math.pi, 'pol': math.pi}[kk])
                m = getattr(pf, cls)(*(list(n) + Ls))
            if case.get('order') == 'locations-first':
                # the "variables in space" tutorial order: location variables of the mesh first, everything else afterwards
                pf.cellLocations(m)
                pf.faceLocations(m)
                m.cellvolume
            phi = pf.CellVariable(m, 1.0)
            phi.BCs.left.fixedValue(2.0)
            D = pf.FaceVariable(m, 1.0)
            u = pf.FaceVariable(m, [0.3, 0.2, 0.1][:nd] if nd > 1 else 0.3)
            terms = [pf.transientTerm(phi, 0.1, 1.0), -pf.diffusionTerm(D), pf.convectionUpwindTerm(u),
                     pf.linearSourceTerm(pf.CellVariable(m, 0.1)), pf.constantSourceTerm(pf.CellVariable(m, 1.0)),
                     pf.convectionTVDupwindRHSTerm(u, phi, pf.fluxLimiter('MinMod'))]
            pf.solvePDE(phi, terms)
            pf.convectionTerm(u)
            rhs = pf.divergenceTerm(pf.gradientTerm(phi))
            pf.solveExplicitPDE(phi, 1e-3, rhs)
            for f in (pf.linearMean, pf.arithmeticMean, pf.geometricMean, pf.harmonicMean):
                f(phi)
            pf.upwindMean(phi, u)
            pf.cellLocations(m)
            pf.faceLocations(m)
            phi.domainIntegral()
            phi.plotprofile()
            for lab in LABELS[cls]:
                getattr(m.cellcenters, lab), getattr(m.facecenters, lab), getattr(m.cellsize, lab)
                getattr(D, COMP[lab])
            return phi
        st, val = outcome(run)
        if st != 'ok':
            return viol('valid/rejected', '%s N=%r form=%s: documented usage raised %s: %s' % (cls, n, form, type(val).__name__, str(val)[:200]), case, key)
        if not np.all(np.isfinite(val.value)):
            return viol('valid/nonfinite', '%s N=%r form=%s: documented usage produced non-finite values' % (cls, n, form), case, key)
        return held(case, key)
    raise KeyError(kind)


def plan(tier, seed):
    cases = []
    for cls in CLASSES:
        nd = NDIM[cls]
        for lab in ALL_LABELS:
            for mode in ('get', 'set'):
                cases.append({'kind': 'complabel', 'cls': cls, 'label': lab, 'mode': mode})
            for cont in ('cellcenters', 'facecenters', 'cellsize'):
                cases.append({'kind': 'coordlabel', 'cls': cls, 'label': lab, 'container': cont})
                cases.append({'kind': 'coordlabel', 'cls': cls, 'label': lab, 'container': cont, 'form': 'NL-shared-args'})
        sides = [s for k in range(nd) for s in SIDES[k]]
        for r in range(1, len(sides) + 1):
            for sub in itertools.combinations(sides, r):
                for entry in ('ctor', 'apply', 'solve', 'explicit') + (('later-plain', 'later-explicit', 'later-noprecalc', 'later-explicitstep') if r <= 2 else ()):
                    cases.append({'kind': 'periodic', 'cls': cls, 'sides': list(sub), 'entry': entry})
        # shapes
        for n in ([[2, 3, 2][:nd], [3, 3, 3][:nd], [1, 1, 1][:nd], [1, 2, 3][:nd]]):
            dims = tuple(n)
            full = tuple(x + 2 for x in n)
            valid = [('scalar', True), ((1,), True), ((1,) * nd, True), ((), True), (dims, True), (full, True)]
            cand = set()
            for d in (-1, 1, 3):
                cand.add(tuple(x + d for x in dims))
                for k in range(nd):
                    t = list(dims)
                    t[k] += d
                    cand.add(tuple(t))
                    t = list(full)
                    t[k] += 1
                    cand.add(tuple(t))
            if nd > 1:
                cand.add(tuple(reversed(dims)))
                cand.add(tuple(reversed(full)))
                cand.add(dims[:-1])
                cand.add((int(np.prod(dims)),))
            cand.add(dims + (1,))
            cand.add(dims + dims[-1:])
            cand.add((1,) + dims)
            cand.add(dims + (2,))
            cand = [c for c in cand if all(x >= 0 for x in c) and c != dims and c != full and int(np.prod(c)) != 1 and len(c) > 0]
            for sh, ok in valid:
                cases.append({'kind': 'shape', 'cls': cls, 'n': n, 'shape': sh, 'valid': ok, 'scalar': 2.0})
            cases.append({'kind': 'shape', 'cls': cls, 'n': n, 'shape': 'scalar', 'valid': True, 'scalar': 2})
            for sh in sorted(cand):
                cases.append({'kind': 'shape', 'cls': cls, 'n': n, 'shape': sh, 'valid': False})
        okar = {1: (1, 2, 6), 2: (2, 4, 6), 3: (3, 6)}[nd]
        for k in range(0, 8):
            if k in okar:
                continue
            for style in ('arrays', 'NL', 'floats'):
                cases.append({'kind': 'arity', 'cls': cls, 'arity': k, 'style': style})
        for k in (0, 2, 4, 5):
            cases.append({'kind': 'facevar-arity', 'cls': cls, 'arity': k})
        for k in (0, 1, 2, 3, 4, 5):
            for w in range(7 if k >= 3 else 1):
                cases.append({'kind': 'cellvar-arity', 'cls': cls, 'arity': k, 'what': w})
        for what in ('pyfloat', 'pyint', 'npfloat64', 'npfloat32', 'npfloat16', 'npint64', 'npint32', 'npint8', 'npuint8', 'list', 'tuple', 'array', 'intlist', 'intarray'):
            for n in ([1] * nd, [2, 3, 2][:nd]):
                cases.append({'kind': 'facevar-form', 'cls': cls, 'what': what, 'n': n})
        for what in ('none', 'float', 'int', 'str', 'cellvar', 'facevar', 'list', 'array0d', 'array3d', 'tuple1', 'tuple3',
                     'tuple_swapped', 'tuple_none', 'tuple_mm', 'tuple_vv', 'dict', 'tuple0'):
            cases.append({'kind': 'term', 'cls': cls, 'what': what})
        nmax = 4 if tier == 'thorough' else 3
        for n in itertools.product(range(1, nmax + 1), repeat=nd):
            if tier == 'quick' and nd == 3 and sum(1 for x in n if x > 1) > 2 and n != (3, 3, 3):
                continue
            for form in ('faces', 'NL'):
                cases.append({'kind': 'valid', 'cls': cls, 'n': list(n), 'form': form})
                cases.append({'kind': 'valid', 'cls': cls, 'n': list(n), 'form': form, 'order': 'locations-first'})
    for what in ('list', 'float', 'int', 'none', 'tuple', 'str', 'npfloat64', 'npfloat32', 'npint64', 'npbool', 'arr.mean()', 'arr[0]'):
        for pos in range(3):
            cases.append({'kind': 'bcface', 'what': what, 'pos': pos})
    for c in cases:
        c['seed'] = [seed]
    step = 80
    return [cases[j:j + step] for j in range(0, len(cases), step)]


def floors(agg, tier):
    out = []
    for k, need in (('req:complabel', 108), ('req:coordlabel', 162), ('req:periodic', 400), ('req:shape', 200),
                    ('req:arity', 100), ('req:term', 150), ('req:valid', 100), ('req:cellvar-arity', 100), ('req:bcface', 36), ('req:facevar-form', 250)):
        if agg['cov'].get(k, 0) < need:
            out.append('%s < %d' % (k, need))
    return out
