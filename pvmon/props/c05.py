"""C05 - implicit matrix terms and the explicit gradient/mean/divergence chain agree.

Monitor: for every generated (grid, face coefficient / velocity with every sign pattern) the interior rows of the
real term matrix are compared ENTRYWISE with the matrix of the real explicit chain built on the full basis of unit
fields (the operators are linear), plus random dense fields on larger grids.  TVD identities for all limiters."""
import numpy as np

import pyfvtool as pf

from ..oracles import CLASSES, NDIM, LIMITERS, Geom, _bc
from .. import gen
from ..ops import interior_rows_dense, chain_matrix, entry_err, row_err
from ..common import interior_index, nerr, to_list, TOL

ID = 'C05'
RULE = ('cases = (grid class, N, spacing family, identity in {diffusion, central, upwind, upwind with separate u_upwind, '
        'TVD zero limiter, TVD unit limiter on uniform grids, TVD flux form for each named limiter}, face-field family with all '
        'sign patterns (-,0,+) and exact zeros); identities are decided entrywise on the FULL basis of unit fields incl. ghost '
        'cells for N<=4 (3D: N<=3) and on random dense fields beyond; non-trivial = coefficient field not identically zero; '
        'distinct by (class, N, families, identity, sign-pattern hash)')
ASSUMPTIONS = ['u_upwind is exercised with zeros only where u is zero as well (a zero upwind direction with non-zero velocity has no '
               'defined donor cell and is outside the explored domain)',
               'TVD flux-form identity uses fields without exact ties so that the _fsign guard is the identity']


def tvd_flux_oracle(g, full, u, FLfun):
    """face field u+*psi+ + u-*psi- with psi = 0.5*FL(r)*(downwind - upwind difference), r = ratio of successive
    gradients (centre distances), written independently of the library; boundary faces: psi+ = 0 at the first
    face, psi- = 0 at the last face of each axis."""
    F = []
    full = np.asarray(full, dtype=float).reshape(g.full_shape())
    for k in range(g.nd):
        it = [slice(1, -1)] * g.nd
        it[k] = slice(None)
        line = full[tuple(it)]                       # all cells along k, interior in other axes
        line = np.moveaxis(line, k, 0)               # (N+2, ...)
        wf = g.wfull[k]
        d = 0.5 * (wf[:-1] + wf[1:])                 # centre distances, N+1
        dsh = (-1,) + (1,) * (line.ndim - 1)
        grad = (line[1:] - line[:-1]) / d.reshape(dsh)      # N+1 faces
        N = g.N[k]
        psi_p = np.zeros_like(grad)
        psi_m = np.zeros_like(grad)
        with np.errstate(all='ignore'):
            rp = grad[0:-1] / grad[1:]               # faces 1..N : upstream gradient / local gradient
            psi_p[1:] = 0.5 * FLfun(rp) * (line[2:] - line[1:-1])
            rm = grad[1:] / grad[0:-1]               # faces 0..N-1
            psi_m[:-1] = 0.5 * FLfun(rm) * (line[0:-2] - line[1:-1])
        uk = np.moveaxis(u[k], k, 0)
        f = np.maximum(uk, 0) * psi_p + np.minimum(uk, 0) * psi_m
        F.append(np.moveaxis(f, 0, k))
    return F


def run_case(case):
    rng = gen.rng_for(*case['seed'])
    cls = case['cls']
    ident = case['ident']
    nd = NDIM[cls]
    big = case.get('big', False)
    deep = case.get('deep', False)
    nmax = (6 if nd < 3 else 5) if big else ((6 if nd < 3 else 4) if deep else (4 if nd < 3 else 3))
    fam = case.get('family')
    if ident == 'tvd-unit':
        fam = 'uniform'
    gfam, gopts = gen.geo_opts(rng, case.get('geo'))
    faces, meta = gen.gen_grid(rng, cls, nmin=1 if not case.get('geo') else 2, nmax=nmax, family=gfam or fam, opts=gopts)
    g = Geom(cls, faces)
    m = gen.build_mesh(pf, cls, faces)
    cov = {'ident:%s:%s' % (ident, cls): 1, 'ufam:' + str(case.get('ufam', 'sign')): 1}
    if case.get('geo'):
        cov['geo:' + case['geo']] = 1
    maxerr = {}
    bad = []
    rows = interior_index(g.dims)
    ufam = case.get('ufam', 'sign')
    arrs, _ = gen.face_arrays(rng, g, ufam, positive=(ident == 'diffusion' and rng.random() < 0.5))
    nontrivial = any(np.any(a != 0) for a in arrs)
    fv = gen.facevar(pf, m, arrs)
    pattern = hash(tuple(np.sign(a).astype(int).tobytes() for a in arrs)) & 0xFFFF
    with np.errstate(all='ignore'):
        if ident in ('diffusion', 'central', 'upwind', 'upwind-sep'):
            if ident == 'diffusion':
                M = pf.diffusionTerm(fv)
                chain = lambda phi: pf.divergenceTerm(fv * pf.gradientTerm(phi))
            elif ident == 'central':
                M = pf.convectionTerm(fv)
                chain = lambda phi: pf.divergenceTerm(fv * pf.linearMean(phi))
            elif ident == 'upwind':
                M = pf.convectionUpwindTerm(fv)
                chain = lambda phi: pf.divergenceTerm(fv * pf.upwindMean(phi, fv))
            else:
                # separate upwind-direction field; zero only where u is zero
                dirs = []
                for a in arrs:
                    s = rng.choice([-1.0, 1.0], a.shape) * np.exp(rng.normal(0, 1, a.shape))
                    dirs.append(np.where(a == 0, np.where(rng.random(a.shape) < 0.5, 0.0, s), s))
                up = gen.facevar(pf, m, dirs)
                M = pf.convectionUpwindTerm(fv, up)
                chain = lambda phi: pf.divergenceTerm(fv * pf.upwindMean(phi, up))
            if not big:
                A = interior_rows_dense(M, g)
                E = chain_matrix(chain, m, g)
                e = entry_err(A, E)
                cov['basis_columns'] = A.shape[1]
                if not (e <= TOL):
                    sc_ = np.abs(A) + np.abs(E)
                    sc_ = sc_ + 1e-3 * sc_.max(axis=1, keepdims=True)
                    d = np.abs(A - E) / np.where(sc_ > 0, sc_, 1)
                    d = np.where(np.isfinite(d), d, np.inf)
                    i, j = np.unravel_index(int(np.argmax(d)), d.shape)
                    cell = np.unravel_index(int(rows[i]), g.full_shape())
                    col = np.unravel_index(int(j), g.full_shape())
                    bad.append((ident + '/matrix-vs-chain', '%s on %s %r: row of cell %r, column of cell %r: matrix %.12g, explicit chain %.12g (entry error %.3g)' % (
                        ident, cls, meta['n'], tuple(map(int, cell)), tuple(map(int, col)), A[i, j], E[i, j], e)))
            else:
                A = interior_rows_dense(M, g)
                e = 0.0
                for rep in range(4):
                    full, _ = gen.cell_field(rng, g.full_shape(), 'random')
                    rhs = np.asarray(chain(pf.CellVariable(m, full.copy()))).ravel()[rows]
                    lhs = A @ full.ravel()
                    sc = np.abs(A) @ np.abs(full.ravel())
                    e = max(e, nerr(lhs, rhs, sc + np.abs(rhs)))
                cov['dense_fields'] = 4
                if not (e <= TOL):
                    bad.append((ident + '/matrix-vs-chain', '%s on %s %r: matrix applied to a random field differs from the explicit chain (normalised %.3g)' % (ident, cls, meta['n'], e)))
            maxerr[ident] = e
            if not bad and fv._xvalue.dtype.kind == 'f':
                # (a) the coefficient object is edited IN PLACE (documented idiom: u.xvalue[:] = ..., D.xvalue[k:] = ...) and the
                # operators are rebuilt from the same object: matrix and chain must still agree (no operator remembers a build);
                # (b) two divergence results alive at the same time: the first one is unchanged by the second call
                for a_ in gen.facevar_arrays(fv, g.nd):
                    a_ *= -0.5            # zeros stay zeros (the separate upwind-direction field is zero only where u is)
                full2, _ = gen.cell_field(rng, g.full_shape(), 'random')
                phi2 = pf.CellVariable(m, full2.copy())
                M2 = {'diffusion': pf.diffusionTerm, 'central': pf.convectionTerm}.get(ident, None)
                M2 = M2(fv) if M2 is not None else (pf.convectionUpwindTerm(fv) if ident == 'upwind' else pf.convectionUpwindTerm(fv, up))
                r1 = chain(phi2)
                r1_copy = np.array(np.asarray(r1), copy=True)
                other = pf.divergenceTerm(fv * pf.linearMean(pf.CellVariable(m, full2[::-1].copy() if g.nd == 1 else full2.copy() * 2.0 + 1.0)))
                if not np.array_equal(np.asarray(r1), r1_copy):
                    bad.append((ident + '/divergence-result-overwritten', 'divergenceTerm on %s: a result changed when divergenceTerm was called again (shared work array)' % cls))
                A2 = interior_rows_dense(M2, g)
                lhs = A2 @ full2.ravel()
                sc2 = np.abs(A2) @ np.abs(full2.ravel())
                e2 = nerr(lhs, r1_copy.ravel()[rows], sc2 + np.abs(r1_copy.ravel()[rows]))
                maxerr[ident + '-after-inplace-edit'] = e2
                cov['rebuild_after_inplace_edit'] = 1
                if not (e2 <= TOL):
                    bad.append((ident + '/stale-after-inplace-edit', '%s on %s %r: after an in-place edit of the coefficient object the rebuilt matrix and the explicit chain disagree (normalised %.3g)' % (ident, cls, meta['n'], e2)))
            if not bad:
                # the field reaches the variable through the variable API instead of the constructor: update_value() from another
                # variable (the hand-over of every explicit time loop), or copy() of a variable whose original is edited afterwards.
                # The source satisfies its (default) boundary conditions, so "the field including its boundary values" is the source's
                # stored array whether the hand-over copies boundary values or recomputes them.
                inner = tuple(slice(1, -1) for _ in range(g.nd))
                f3, _ = gen.cell_field(rng, g.full_shape(), 'random')
                f4, _ = gen.cell_field(rng, g.full_shape(), 'random')
                src = pf.CellVariable(m, f3[inner].copy())
                field = np.array(np.asarray(src._value), dtype=float, copy=True)
                how = str(rng.choice(['update_value', 'copy-then-edit-setter', 'copy-then-edit-slice', 'copy-then-update_value']))
                if how == 'update_value':
                    var = pf.CellVariable(m, f4[inner].copy())
                    var.update_value(src)
                else:
                    var = src.copy()
                    if how.endswith('setter'):
                        src.value = f4[inner]
                    elif how.endswith('slice'):
                        src.value[...] = f4[inner]
                    else:
                        src.update_value(pf.CellVariable(m, f4[inner].copy()))
                Mh = M2 if fv._xvalue.dtype.kind == 'f' else M
                Ah = interior_rows_dense(Mh, g)
                rh = np.asarray(chain(var)).ravel()[rows]
                lh = Ah @ field.ravel()
                sch = np.abs(Ah) @ np.abs(field.ravel())
                e3 = nerr(lh, rh, sch + np.abs(rh))
                maxerr[ident + '-handed-over'] = e3
                cov['field_handed_over:' + how] = 1
                if not (e3 <= TOL):
                    bad.append((ident + '/handed-over-field', '%s on %s %r: the explicit chain evaluated on a variable that received its field by %s differs from the matrix applied to that field incl. its boundary values (normalised %.3g)' % (ident, cls, meta['n'], how, e3)))
        elif ident == 'tvd-zero':
            bad_here = False
            for rep in range(3):
                full, _ = gen.cell_field(rng, g.full_shape())
                rhs = pf.convectionTVDupwindRHSTerm(fv, pf.CellVariable(m, full.copy()), lambda r: 0.0 * r)
                if np.any(np.asarray(rhs) != 0):
                    bad_here = True
            cov['tvd_zero_fields'] = 3
            if bad_here:
                bad.append(('tvd-zero', 'TVD correction with a zero limiter is not exactly zero on %s' % cls))
            maxerr['tvd-zero'] = 0.0
        elif ident == 'tvd-unit':
            Mu = interior_rows_dense(pf.convectionUpwindTerm(fv), g)
            Mc = interior_rows_dense(pf.convectionTerm(fv), g)
            e = 0.0
            for rep in range(3):
                full = rng.normal(0, 1, g.full_shape())
                rhs = np.asarray(pf.convectionTVDupwindRHSTerm(fv, pf.CellVariable(m, full.copy()), lambda r: 1.0 + 0.0 * r)).ravel()[rows]
                x = full.ravel()
                lhs = Mu @ x - rhs
                ref = Mc @ x
                sc = np.abs(Mu) @ np.abs(x) + np.abs(rhs) + np.abs(Mc) @ np.abs(x)
                e = max(e, nerr(lhs, ref, sc))
            maxerr['tvd-unit'] = e
            cov['tvd_unit_fields'] = 3
            if not (e <= TOL):
                bad.append(('tvd-unit', 'uniform %s %r: upwind operator minus TVD correction with unit limiter differs from the central operator (normalised %.3g)' % (cls, meta['n'], e)))
        elif ident == 'tvd-flux':
            name = case['limiter']
            FL = pf.fluxLimiter(name)
            e = 0.0
            for rep in range(3):
                full = rng.normal(0, 1, g.full_shape())
                rhs = np.asarray(pf.convectionTVDupwindRHSTerm(fv, pf.CellVariable(m, full.copy()), FL)).ravel()[rows]
                F = tvd_flux_oracle(g, full, arrs, FL)
                ref = -np.asarray(pf.divergenceTerm(gen.facevar(pf, m, F))).ravel()[rows]
                # scale: sum of absolute face contributions
                Fa = [np.abs(f) for f in F]
                sc = np.asarray(pf.divergenceTerm(gen.facevar(pf, m, [np.abs(f) * 0 + np.abs(f) for f in Fa]))).ravel()[rows]
                sc = np.abs(rhs) + np.abs(ref)
                e = max(e, nerr(rhs, ref, sc))
            maxerr['tvd-flux'] = e
            cov['tvd_flux_fields'] = 3
            if not (e <= 1e-7):
                bad.append(('tvd-flux', '%s %r limiter %s: TVD correction is not minus the divergence of the limited anti-diffusive face flux (normalised %.3g)' % (cls, meta['n'], name, e)))
        else:
            raise KeyError(ident)
    key = '%s/%s/%s/%s/%s/%d' % (cls, meta['n'], meta['family'], ident, case.get('limiter', ''), pattern)
    sample = {'grid': gen.describe_grid(meta, faces), 'identity': ident, 'coef_family': ufam, 'limiter': case.get('limiter'),
              'coef_head': to_list(arrs[0].ravel()[:6])}
    if bad:
        return {'verdict': 'violated', 'mech': '%s/%s' % (cls, bad[0][0]), 'key': key, 'cov': cov, 'maxerr': maxerr, 'nontrivial': nontrivial,
                'msg': '; '.join(b[1] for b in bad)[:700],
                'witness': {'cls': cls, 'faces': [to_list(f) for f in faces], 'ident': ident, 'coef': [to_list(a) for a in arrs]},
                'sample': sample}
    return {'verdict': 'held', 'key': key, 'cov': cov, 'maxerr': maxerr, 'nontrivial': nontrivial, 'sample': sample}


IDENTS = ['diffusion', 'central', 'upwind', 'upwind-sep', 'tvd-zero', 'tvd-unit']


def plan(tier, seed):
    per = 6 if tier == 'quick' else 120
    chunks = []
    for ci, cls in enumerate(CLASSES):
        cases = []
        i = 0
        for ident in IDENTS:
            for rep in range(per):
                cases.append({'cls': cls, 'ident': ident, 'seed': [seed, 5, ci, i], 'family': gen.FAMILIES[rep % 5] if rep % 2 else None,
                              'ufam': ['sign', 'random', 'sign', 'const'][rep % 4], 'big': (rep % 6 == 5), 'deep': tier == 'thorough' and rep % 4 == 0})
                i += 1
        for ident in IDENTS:
            if ident == 'tvd-unit':
                continue
            for rep in range(7 if tier == 'quick' else 35):     # tiny / huge length units, almost-uniform spacing, integer-typed face arrays
                cases.append({'cls': cls, 'ident': ident, 'seed': [seed, 5, ci, i], 'geo': ['nano', 'jitter', 'mega', 'int', 'offset', 'negative', 'wild'][rep % 7],
                              'ufam': ['sign', 'random'][rep % 2]})
                i += 1
            for rep in range(3 if tier == 'quick' else 24):     # coefficient / velocity components stored in integer arrays
                cases.append({'cls': cls, 'ident': ident, 'seed': [seed, 5, ci, i], 'ufam': 'int', 'family': gen.FAMILIES[rep % 5] if rep % 2 else None})
                i += 1
        for li, name in enumerate(LIMITERS + ['const1']):
            for rep in range(1 if tier == 'quick' else 12):
                if name == 'const1':
                    continue
                cases.append({'cls': cls, 'ident': 'tvd-flux', 'limiter': name, 'seed': [seed, 5, ci, i], 'ufam': 'sign'})
                i += 1
        step = 12 if NDIM[cls] == 3 else 40
        for j in range(0, len(cases), step):
            chunks.append(cases[j:j + step])
    return chunks


def floors(agg, tier):
    out = []
    for cls in CLASSES:
        for ident in IDENTS + ['tvd-flux']:
            if agg['cov'].get('ident:%s:%s' % (ident, cls), 0) < 5:
                out.append('ident:%s:%s < 5' % (ident, cls))
    if agg['cov'].get('rebuild_after_inplace_edit', 0) < 300:
        out.append('rebuild_after_inplace_edit < 300')
    if agg['cov'].get('ufam:int', 0) < 100:
        out.append('ufam:int < 100')
    for geo in ('nano', 'jitter', 'mega', 'int', 'offset', 'negative', 'wild'):
        if agg['cov'].get('geo:' + geo, 0) < 30:
            out.append('geo:%s < 30' % geo)
    if agg['cov'].get('basis_columns', 0) < 2000:
        out.append('basis_columns < 2000')
    return out
