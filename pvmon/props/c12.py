"""C12 - time stepping: backward-Euler residual, steady states are fixed points, limits dt->0 / dt->inf,
explicit step law, implicit-vs-explicit consistency O(dt^2)."""
import numpy as np
import scipy.sparse as sp

import pyfvtool as pf

from ..oracles import CLASSES, NDIM, SIDES, Geom
from .. import gen
from ..common import SpySolver, residual_err, interior_index, nerr, to_list, TOL, digest, cellvar_arrays, absmv, solve_with
from ..bcrel import check_ghosts

ID = 'C12'
RULE = ('cases = (grid class, N, spacing family, BC kinds, spatial term set in {diffusion, +upwind, +central, +linear source, +constant '
        'source}, kind in {be-residual, fixed-point, limits, explicit, consistency, loop = documented time-loop idioms: explicit loop carried by update_value vs rebinding; BC edit + explicit step from phi + implicit step on phi vs a twin without the explicit step}, dt over 12 decades, alpha scalar / ndarray / '
        'CellVariable, multi-step sequences); non-trivial = old field not constant and dt finite; distinct by (class, N, families, BC '
        'vector, term set, kind, alpha kind)')
ASSUMPTIONS = ['limit tolerances are computed from the captured operator: dt->inf: 10*(alpha/dt)*||M_steady^-1||*||old-steady||; dt->0: '
               '10*(dt/alpha)*||b - S old||', 'explicit step law compared with tolerance 4 ulp']
EPS = np.finfo(float).eps


def problem(rng, cls, nmax, need_steady=False, Tu=1.0, force_periodic=None):
    from ..oracles import AXKIND
    faces, meta = gen.gen_grid(rng, cls, nmin=1, nmax=nmax, family='symmetric' if force_periodic is not None else None)
    g = Geom(cls, faces)
    m = gen.build_mesh(pf, cls, faces)
    capable = [k for k in range(1 if need_steady else 0, g.nd) if AXKIND[cls][k] in ('len', 'ang') and abs(g.w[k][0] - g.w[k][-1]) <= 1e-12 * g.w[k][0]]
    per = [k for k in capable if rng.random() < 0.3]
    if force_periodic is not None and force_periodic in capable and force_periodic not in per:
        per = sorted(per + [force_periodic])
    for _ in range(60):
        kinds = None
        if need_steady:
            kinds = {SIDES[0][1]: 'D'}        # at least one Dirichlet side -> steady problem well posed
        spec = gen.gen_bc_spec(rng, g, kinds=kinds, periodic_axes=per, lams=(1.0, -1.0, 2.5, 0.4))
        if gen.bc_nonsingular(g, spec):
            break
    D, _ = gen.face_arrays(rng, g, 'random', positive=True)
    D = [np.clip(a, 1e-2, 1e2) for a in D]
    u, _ = gen.face_arrays(rng, g, 'sign')
    for k in per:           # periodic-compatible coefficients
        for arr in (D[k], u[k]):
            i0 = [slice(None)] * g.nd
            i1 = [slice(None)] * g.nd
            i0[k], i1[k] = 0, -1
            arr[tuple(i1)] = arr[tuple(i0)]
    tset = str(rng.choice(['D', 'D+upwind', 'D+central', 'D+upwind+src', 'D+src']))
    Df = gen.facevar(pf, m, [a / Tu for a in D])            # Tu: time measured in another unit (rates x 1/Tu, steps x Tu)
    mats = [-pf.diffusionTerm(Df)]
    scale_u = 0.2 * min(float(np.min(a)) for a in D) / max(float(np.max(w)) for w in g.w)
    uf = gen.facevar(pf, m, [scale_u * np.sign(a) / Tu for a in u])
    if 'upwind' in tset:
        mats.append(pf.convectionUpwindTerm(uf))
    if 'central' in tset:
        mats.append(pf.convectionTerm(uf))
    vec = np.zeros(int(np.prod(g.full_shape())))
    if 'src' in tset:
        mats.append(pf.linearSourceTerm(pf.CellVariable(m, np.abs(rng.normal(0, 1, g.dims)) / Tu)))
        vec = pf.constantSourceTerm(pf.CellVariable(m, rng.normal(0, 1, g.dims) / Tu))
    S = mats[0]
    for M_ in mats[1:]:
        S = S + M_
    return faces, meta, g, m, spec, sp.csr_array(S), np.asarray(vec, dtype=float), mats, tset


def alpha_of(rng, m, g):
    r = rng.random()
    if r < 0.4:
        a = float(10 ** rng.uniform(-2, 2))
        return a, np.full(g.dims, a), 'scalar'
    arr = np.exp(rng.normal(0, 1, g.dims))
    if r < 0.7:
        return arr.copy(), arr, 'ndarray'
    return pf.CellVariable(m, arr.copy()), arr, 'cellvar'


def run_case(case):
    rng = gen.rng_for(*case['seed'])
    cls = case['cls']
    kind = case['kind']
    nmax = case.get('nmax', 5 if NDIM[cls] < 3 else 3)
    Tu = 1.0
    if case.get('tunit') and kind in ('be-residual', 'loop', 'fixed-point'):
        Tu = float(10 ** (rng.uniform(8, 11) if rng.random() < 0.6 else rng.uniform(-11, -8)))
    faces, meta, g, m, spec, S, bvec, mats, tset = problem(rng, cls, nmax, need_steady=kind in ('fixed-point', 'limits'), Tu=Tu, force_periodic=case.get('force_periodic'))
    cov, maxerr, bad = {}, {}, []
    if Tu != 1.0:
        cov['time_unit:%s' % ('large' if Tu > 1 else 'small')] = 1
    rows = interior_index(g.dims)
    nfull = int(np.prod(g.full_shape()))
    old_vals, ffam = gen.cell_field(rng, g.dims, str(rng.choice(['random', 'step', 'positive'])))
    akind = ''
    inconclusive = None
    with np.errstate(all='ignore'):
        if kind == 'be-residual':
            phi = pf.CellVariable(m, old_vals.copy(), gen.make_bc(pf, m, g, spec))
            nsteps = int(rng.integers(1, 4))
            wide = bool(rng.random() < 0.4)             # nanosecond ... gigasecond steps, adapted from step to step
            dt_prev = None
            for step in range(nsteps):
                dt = float(10 ** (rng.uniform(-6, 6) if not wide else rng.uniform(-13, 10)))
                if wide and dt_prev is not None and rng.random() < 0.6:
                    dt = dt_prev * float(rng.choice([0.5, 2.0, 0.8, 1.25]))
                dt_prev = dt
                if wide:
                    cov['be_wide_dt_steps'] = cov.get('be_wide_dt_steps', 0) + 1
                dt = dt * Tu
                if not wide and Tu == 1.0 and rng.random() < 0.25:
                    dt = [2, 5, np.int64(3), np.int32(10), 1][int(rng.integers(0, 5))]      # a whole number of seconds, typed as such
                    cov['be_integer_dt_steps'] = cov.get('be_integer_dt_steps', 0) + 1
                alpha, aarr, akind = alpha_of(rng, m, g)
                old = np.array(phi.value, copy=True)
                spy = SpySolver()
                # the spatial part as separate terms, or assembled by the caller into ONE (matrix, vector) tuple, matrices in any format
                how_ = int(rng.integers(0, 3))
                if how_ == 0:
                    tl_ = [pf.transientTerm(phi, dt, alpha)] + mats + [bvec]
                elif how_ == 1:
                    tl_ = [pf.transientTerm(phi, dt, alpha), (sp.csr_array(S).copy(), bvec.copy())]
                    cov['spatial_part_as_tuple'] = cov.get('spatial_part_as_tuple', 0) + 1
                else:
                    tl_ = [(sp.csr_array(S).copy(), bvec.copy()), pf.transientTerm(phi, dt, alpha)]
                    cov['spatial_part_as_tuple'] = cov.get('spatial_part_as_tuple', 0) + 1
                solve_with(pf, spy, phi, gen.vary_terms(rng, tl_), default_path=bool(case['seed'][-1] % 2))
                M, b, x = spy.last
                if not np.all(np.isfinite(x)):
                    inconclusive = 'singular system'
                    break
                # independent backward-Euler equations: alpha*(new-old)/dt + S x - b = 0 on interior rows
                Mtr = sp.csr_array((aarr.ravel() / float(dt), (rows, rows)), shape=(nfull, nfull))
                rtr = np.zeros(nfull)
                rtr[rows] = aarr.ravel() * old.ravel() / float(dt)
                e = residual_err(Mtr + S, x, rtr + bvec, rows, solver_output=True, solved=(M, b))
                maxerr['be-residual'] = max(maxerr.get('be-residual', 0.0), e)
                cov['be_steps'] = cov.get('be_steps', 0) + 1
                cov['alpha:' + akind] = 1
                if not (e <= TOL):
                    bad.append(('be-residual', 'step %d: alpha*(new-old)/dt + S new - b != 0 (alpha %s, dt %.3g, normalised %.3g)' % (step + 1, akind, dt, e)))
                if not np.array_equal(np.asarray(phi.value).ravel(), np.asarray(x)[rows]):
                    bad.append(('stored-values', 'values stored after the step are not the solver output'))
                # "spatial terms applied to new": the new VARIABLE, i.e. the solved interior with the boundary values it reports
                xr_ = np.asarray(phi._value, dtype=float).ravel()
                s_all_ = absmv(M, x) + np.abs(b)
                gm_ = np.ones(len(s_all_), dtype=bool)
                gm_[rows] = False
                sb_ = s_all_[gm_]
                sb_ = sb_[sb_ > 0]
                amp_ = float(np.max(s_all_)) / float(np.min(sb_)) if sb_.size else 1.0
                allowed_rep = 1e-7 + 64.0 * len(s_all_) * np.finfo(float).eps * amp_
                uneq_ = [k_ for k_ in spec['periodic'] if abs(g.w[k_][0] - g.w[k_][-1]) > 1e-12 * g.w[k_][0]]
                if allowed_rep <= 1e-4 and not uneq_:
                    e_rep_ = residual_err(Mtr + S, xr_, rtr + bvec, rows, solver_output=True, solved=(M, b))
                    maxerr['be-residual-reported'] = max(maxerr.get('be-residual-reported', 0.0), e_rep_)
                    cov['be_reported_steps'] = cov.get('be_reported_steps', 0) + 1
                    if not (e_rep_ <= allowed_rep):
                        bad.append(('be-residual-reported', 'step %d: the new variable (solved interior + the boundary values it reports) violates alpha*(new-old)/dt + S new = b (normalised %.3g, allowed %.3g)' % (step + 1, e_rep_, allowed_rep)))
        elif kind in ('fixed-point', 'limits'):
            phi = pf.CellVariable(m, old_vals.copy(), gen.make_bc(pf, m, g, spec))
            spy0 = SpySolver()
            pf.solvePDE(phi, mats + [bvec], externalsolver=spy0)
            M0, b0, x0 = spy0.last
            n = M0.shape[0]
            cond = np.linalg.cond(M0.toarray(), 1) if n <= 600 else np.inf
            cond_eq = gen.equilibrated_cond(M0) if n <= 600 else np.inf        # a time unit must not make the case "ill-conditioned"
            if not np.all(np.isfinite(x0)) or not np.isfinite(cond_eq) or cond_eq > 1e9 or (kind == 'limits' and cond > 1e9):
                inconclusive = 'steady problem singular / ill-conditioned (cond %.3g)' % cond_eq
            else:
                steady = np.array(phi.value, copy=True)
                xs = np.array(phi._value, copy=True)
                if kind == 'fixed-point':
                    for rep in range(3):
                        dt = float(10 ** rng.uniform(-6, 6)) * Tu
                        alpha, aarr, akind = alpha_of(rng, m, g)
                        p = pf.CellVariable(m, steady.copy(), gen.make_bc(pf, m, g, spec))
                        spy = SpySolver()
                        pf.solvePDE(p, [pf.transientTerm(p, dt, alpha)] + mats + [bvec], externalsolver=spy)
                        M, b, x = spy.last
                        e = residual_err(M, x0, b, solver_output=True)
                        maxerr['fixed-point-residual'] = max(maxerr.get('fixed-point-residual', 0.0), e)
                        cov['fixed_point_steps'] = cov.get('fixed_point_steps', 0) + 1
                        cov['alpha:' + akind] = 1
                        if not (e <= TOL):
                            bad.append(('fixed-point', 'the steady solution does not satisfy the transient step system (dt %.3g, alpha %s): normalised residual %.3g' % (dt, akind, e)))
                        ct = np.linalg.cond(M.toarray(), 1)
                        if np.isfinite(ct) and ct < 1e10:
                            d = float(np.max(np.abs(np.asarray(p.value) - steady))) / (float(np.max(np.abs(steady))) + 1e-300)
                            maxerr['fixed-point-direct/cond'] = max(maxerr.get('fixed-point-direct/cond', 0.0), d / max(ct, cond))
                            if d > 1e-12 * max(ct, cond) + 1e-13:
                                bad.append(('fixed-point-direct', 'a transient step (dt %.3g, alpha %s) moved the steady solution by relative %.3g' % (dt, akind, d)))
                else:
                    Minv = np.linalg.inv(M0.toarray())
                    ninv = float(np.max(np.sum(np.abs(Minv), axis=1)))
                    alpha = float(10 ** rng.uniform(-1, 1))
                    # dt -> infinity
                    p = pf.CellVariable(m, old_vals.copy(), gen.make_bc(pf, m, g, spec))
                    dt = 1e12
                    pf.solvePDE(p, [pf.transientTerm(p, dt, alpha)] + mats + [bvec])
                    d = float(np.max(np.abs(np.asarray(p.value) - steady)))
                    tol = 10 * (alpha / dt) * ninv * float(np.max(np.abs(old_vals - steady))) + 1e-12 * cond * float(np.max(np.abs(steady)) + 1e-300)
                    maxerr['limit-inf'] = d / tol * 1e-9
                    cov['limit_inf'] = 1
                    if d > tol:
                        bad.append(('limit-inf', 'dt = 1e12 does not return the steady solution: max diff %.3g, bound %.3g' % (d, tol)))
                    # dt -> 0
                    p = pf.CellVariable(m, old_vals.copy(), gen.make_bc(pf, m, g, spec))
                    full_old = np.array(p._value, copy=True).ravel()
                    dt = 1e-12
                    pf.solvePDE(p, [pf.transientTerm(p, dt, alpha)] + mats + [bvec])
                    d = float(np.max(np.abs(np.asarray(p.value) - old_vals)))
                    drive = float(np.max(np.abs((S @ full_old - bvec)[rows])))
                    tol = 10 * (dt / alpha) * drive + 64 * EPS * float(np.max(np.abs(old_vals)))
                    maxerr['limit-zero'] = d / tol * 1e-9
                    cov['limit_zero'] = 1
                    if d > tol:
                        bad.append(('limit-zero', 'dt = 1e-12 does not return the old field: max diff %.3g, bound %.3g' % (d, tol)))
        elif kind == 'explicit':
            phi = pf.CellVariable(m, old_vals.copy(), gen.make_bc(pf, m, g, spec))
            dirty = bool(rng.random() < 0.5)
            if dirty:
                phi.value = old_vals * 1.0 + 0.0      # raises the dirty flag through the public setter
            nsteps = int(rng.integers(1, 4))
            for step in range(nsteps):
                dt = float(10 ** rng.uniform(-6, 1))
                rhs = rng.normal(0, 1, nfull)
                if rng.random() < 0.5:
                    rhs = -(S @ np.asarray(phi._value).ravel() - bvec)
                vis0 = digest(*cellvar_arrays(phi, visible_only=True))
                old = np.array(phi.value, copy=True)
                rhs0 = rhs.copy()
                new = pf.solveExplicitPDE(phi, dt, rhs)
                if new is phi:
                    bad.append(('explicit-identity', 'solveExplicitPDE returned its input variable'))
                if digest(*cellvar_arrays(phi, visible_only=True)) != vis0:
                    bad.append(('explicit-input-modified', 'solveExplicitPDE changed the interior values or boundary conditions of its input'))
                if not np.array_equal(rhs, rhs0):
                    bad.append(('explicit-rhs-modified', 'solveExplicitPDE modified the RHS vector'))
                ex = old + dt * rhs0[rows].reshape(g.dims)
                if np.any(np.abs(np.asarray(new.value) - ex) > 4 * EPS * (np.abs(old) + np.abs(dt * rhs0[rows].reshape(g.dims)))):
                    bad.append(('explicit-law', 'solveExplicitPDE result is not old + dt*RHS on interior cells'))
                if np.shares_memory(new._value, phi._value):
                    bad.append(('explicit-aliasing', 'result shares value storage with the input'))
                b2, me, cv = check_ghosts(g, new._value, new.BCs)
                bad += [('explicit-ghosts/' + a_, s_) for a_, s_ in b2]
                cov['explicit_steps'] = cov.get('explicit_steps', 0) + 1
                phi = new
        elif kind == 'loop':
            sub = case.get('sub', 'explicit-update')
            cov['loop:' + sub] = 1
            if sub == 'explicit-update':
                # the documented explicit time loop: c = solveExplicitPDE(c_old, dt, RHS(c_old)); c_old.update_value(c)
                # reference: the same loop carried by rebinding (r = solveExplicitPDE(r, ...)); both must agree step by step,
                # and c_old must hold re-imposed boundary values after every update
                c_old = pf.CellVariable(m, old_vals.copy(), gen.make_bc(pf, m, g, spec))
                ref = pf.CellVariable(m, old_vals.copy(), gen.make_bc(pf, m, g, spec))
                Sabs = abs(S)
                nrm = float(np.max(np.asarray(Sabs.sum(axis=1)).ravel()[rows])) + 1e-300
                nsteps = int(rng.integers(2, 6))
                for step in range(nsteps):
                    dt = float(10 ** rng.uniform(-2, -0.3)) / nrm
                    rhs_c = -(S @ np.asarray(c_old._value).ravel() - bvec)
                    rhs_r = -(S @ np.asarray(ref._value).ravel() - bvec)
                    stored = c_old.copy()                 # states kept for later (output, restart) by copy()
                    stored_full = np.array(np.asarray(c_old._value), copy=True)
                    c = pf.solveExplicitPDE(c_old, dt, rhs_c)
                    c_old.update_value(c)
                    if not np.array_equal(np.asarray(stored._value), stored_full):
                        bad.append(('loop/stored-copy-changed', 'explicit loop step %d: a copy() of the old state taken before update_value() changed with it (max change %.3g)' % (
                            step + 1, float(np.max(np.abs(np.asarray(stored._value) - stored_full))))))
                        break
                    ref = pf.solveExplicitPDE(ref, dt, rhs_r)
                    sc = float(np.max(np.abs(np.asarray(ref._value)))) + 1e-300
                    d = float(np.max(np.abs(np.asarray(c_old._value) - np.asarray(ref._value)))) / sc
                    maxerr['loop-update-vs-rebind'] = max(maxerr.get('loop-update-vs-rebind', 0.0), d)
                    cov['loop_steps'] = cov.get('loop_steps', 0) + 1
                    if d > 1e-12:
                        bad.append(('loop/update_value', 'explicit loop step %d: the variable refreshed with update_value() differs from the rebinding loop by relative %.3g (interior %.3g)' % (
                            step + 1, d, float(np.max(np.abs(np.asarray(c_old.value) - np.asarray(ref.value)))) / sc)))
                        break
                    if c_old.BCs.modified or c_old.value.modified:
                        c_old.apply_BCs()            # what every solver does first with a flagged variable
                    b2, me, cv = check_ghosts(g, c_old._value, c_old.BCs)
                    if b2:
                        bad += [('loop/ghosts-after-update/' + a_, s_) for a_, s_ in b2]
                        break
            else:
                # mixed loop: [implicit step], boundary condition edited through the public setters, explicit step taken FROM phi
                # (which must leave phi untouched and usable), then a backward-Euler step ON phi
                phi = pf.CellVariable(m, old_vals.copy(), gen.make_bc(pf, m, g, spec))
                twin = pf.CellVariable(m, old_vals.copy(), gen.make_bc(pf, m, g, spec))     # same history without the explicit step
                if rng.random() < 0.5:
                    dt0 = float(10 ** rng.uniform(-3, 1)) * Tu
                    for v in (phi, twin):
                        pf.solvePDE(v, [pf.transientTerm(v, dt0, 1.0)] + mats + [bvec])
                ke = int(rng.integers(0, g.nd))
                edited = None
                if ke not in spec['periodic']:
                    edited = SIDES[ke][int(rng.integers(0, 2))]
                    how = str(rng.choice(['c', 'fixedValue', 'robin']))
                    shift_c = float(rng.normal()) + 1.5
                    for v in (phi, twin):
                        fe = getattr(v.BCs, edited)
                        if how == 'c':
                            fe.c = np.asarray(fe.c) + shift_c
                        elif how == 'fixedValue':
                            fe.fixedValue(shift_c)
                        else:
                            fe.a = np.asarray(fe.a) * 0.5 + 1.0
                            fe.b = np.asarray(fe.b) * 0.5 - (1.0 if edited == SIDES[ke][0] else -1.0)
                            fe.c = np.asarray(fe.c) - shift_c
                    cov['loop_bc_edit:' + edited] = 1
                Sabs = abs(S)
                nrm = float(np.max(np.asarray(Sabs.sum(axis=1)).ravel()[rows])) + 1e-300
                dte = 0.1 / nrm
                vis0 = digest(*cellvar_arrays(phi, visible_only=True))
                rhs = -(S @ np.asarray(phi._value).ravel() - bvec) if rng.random() < 0.5 else rng.normal(0, 1, nfull)
                new = pf.solveExplicitPDE(phi, dte, rhs)
                if digest(*cellvar_arrays(phi, visible_only=True)) != vis0:
                    bad.append(('explicit-input-modified', 'solveExplicitPDE changed the interior values or boundary conditions of its input'))
                b2, me, cv = check_ghosts(g, new._value, new.BCs)
                bad += [('explicit-ghosts/' + a_, s_) for a_, s_ in b2]
                dt = float(10 ** rng.uniform(-4, 4)) * Tu
                alpha, aarr, akind = alpha_of(rng, m, g)
                old = np.array(phi.value, copy=True)
                spy, spy_t = SpySolver(), SpySolver()
                pf.solvePDE(phi, [pf.transientTerm(phi, dt, alpha)] + mats + [bvec], externalsolver=spy)
                pf.solvePDE(twin, [pf.transientTerm(twin, dt, alpha)] + mats + [bvec], externalsolver=spy_t)
                M, b, x = spy.last
                xt = spy_t.last[2]
                if not (np.all(np.isfinite(x)) and np.all(np.isfinite(xt))):
                    inconclusive = 'singular system'
                else:
                    Mtr = sp.csr_array((aarr.ravel() / dt, (rows, rows)), shape=(nfull, nfull))
                    rtr = np.zeros(nfull)
                    rtr[rows] = aarr.ravel() * old.ravel() / dt
                    e = residual_err(Mtr + S, x, rtr + bvec, rows, solver_output=True, solved=(M, b))
                    # the same equations on the REPORTED new variable (solved interior + re-imposed boundary values): recomputed
                    # ghosts carry the solver's backward error divided by the ghost coefficient, hence 1e-7 (defects give >= 1e-3)
                    xr = np.asarray(phi._value, dtype=float).ravel()
                    e_rep = residual_err(Mtr + S, xr, rtr + bvec, rows, solver_output=True, solved=(M, b))
                    e_twin = residual_err(M, xt, b, solver_output=True)
                    maxerr['loop-be-residual'] = max(maxerr.get('loop-be-residual', 0.0), e)
                    maxerr['loop-be-residual-reported'] = max(maxerr.get('loop-be-residual-reported', 0.0), e_rep)
                    maxerr['loop-twin-residual'] = max(maxerr.get('loop-twin-residual', 0.0), e_twin)
                    cov['loop_steps'] = cov.get('loop_steps', 0) + 1
                    if not (e <= TOL):
                        bad.append(('be-residual', 'implicit step after an explicit step from the same variable: alpha*(new-old)/dt + S new - b != 0 (normalised %.3g)' % e))
                    if not (e_rep <= 1e-7):
                        bad.append(('loop/be-residual-reported', 'BC edit on %s, explicit step from phi, then backward-Euler step on phi: the new variable (with its boundary values) violates '
                                    'alpha*(new-old)/dt + S new = b in boundary-adjacent cells (normalised %.3g)' % (edited, e_rep)))
                    # the loop goes on with the variable RETURNED by the explicit solver (no pre-computed boundary term): implicit
                    # step, boundary data of one side changed, implicit step - each must satisfy the backward-Euler equations with
                    # the boundary values the variable reports
                    for rnd in range(2):
                        if bad:
                            break
                        if rnd:
                            kq = int(rng.integers(0, g.nd))
                            if kq in spec['periodic']:
                                break
                            fq = getattr(new.BCs, SIDES[kq][int(rng.integers(0, 2))])
                            fq.c = np.asarray(fq.c) + 1.1
                        oldn = np.array(new.value, copy=True)
                        pf.solvePDE(new, [pf.transientTerm(new, dt, alpha)] + mats + [bvec])
                        xn = np.asarray(new._value, dtype=float).ravel()
                        if not np.all(np.isfinite(xn)):
                            break
                        rtn = np.zeros(nfull)
                        rtn[rows] = aarr.ravel() * oldn.ravel() / dt
                        en = residual_err(Mtr + S, xn, rtn + bvec, rows, solver_output=True)
                        maxerr['loop-be-residual-explicit-result'] = max(maxerr.get('loop-be-residual-explicit-result', 0.0), en)
                        cov['loop_steps_on_explicit_result'] = cov.get('loop_steps_on_explicit_result', 0) + 1
                        if not (en <= 1e-7):
                            bad.append(('loop/be-residual-explicit-result', 'implicit step #%d on the variable returned by solveExplicitPDE%s: the new variable violates alpha*(new-old)/dt + S new = b (normalised %.3g)' % (
                                rnd + 1, ' after a boundary-data edit' if rnd else '', en)))
                    if not (e_twin <= TOL):
                        bad.append(('loop/explicit-step-side-effect', 'the backward-Euler system solved on phi after solveExplicitPDE(phi, ...) is not the one solved without the '
                                    'intervening explicit step (BC edit on %s): residual of the twin solution %.3g' % (edited, e_twin)))
        elif kind == 'consistency':
            phi0 = pf.CellVariable(m, old_vals.copy(), gen.make_bc(pf, m, g, spec))
            alpha = float(10 ** rng.uniform(-0.5, 0.5))
            Sabs = abs(S)
            nrm = float(np.max(np.asarray(Sabs.sum(axis=1)).ravel()[rows])) / alpha + 1e-300
            dt0 = 0.02 / nrm
            fieldn = float(np.max(np.abs(np.asarray(phi0._value)))) + float(np.max(np.abs(bvec))) / nrm + 1e-300

            def differences(dt0):
                out = []
                for dt in (dt0, dt0 / 2, dt0 / 4):
                    p = pf.CellVariable(m, old_vals.copy(), gen.make_bc(pf, m, g, spec))
                    pf.solvePDE(p, [pf.transientTerm(p, dt, alpha)] + mats + [bvec])
                    q = pf.CellVariable(m, old_vals.copy(), gen.make_bc(pf, m, g, spec))
                    rhs = -(S @ np.asarray(q._value).ravel() - bvec) / alpha
                    qn = pf.solveExplicitPDE(q, dt, rhs)
                    out.append(float(np.max(np.abs(np.asarray(p.value) - np.asarray(qn.value)))))
                return out
            diffs = differences(dt0)
            tries = 0
            while diffs[0] > 1e-3 * fieldn and tries < 4:
                dt0 /= 10.0
                diffs = differences(dt0)
                tries += 1
            cov['consistency'] = 1
            maxerr['consistency-ratio'] = 0.0
            floor = 1e-11 * fieldn
            if diffs[0] > 1e-3 * fieldn:
                inconclusive = 'first difference not yet in the asymptotic regime'
            else:
                for a_, b_ in ((diffs[0], diffs[1]), (diffs[1], diffs[2])):
                    if a_ > floor and b_ > a_ / 3.0 and b_ > floor:
                        bad.append(('consistency', 'implicit and explicit steps do not agree to O(dt^2): differences %r for dt, dt/2, dt/4' % (diffs,)))
                        break
        elif kind == 'refresh':
            # one variable stepped several times at ONE dt; between steps only a PART of the problem is refreshed: the storage
            # coefficient (a CellVariable kept by the caller and given new values in one of the supported ways), or the flow of a
            # central advection term on a uniform grid (reversed / scaled: only off-diagonal entries of the system change).
            # Every step must satisfy the backward-Euler equations of the problem as it is at that step.
            sub = case.get('sub', 'alpha')
            from ..oracles import AXKIND
            fac_u, meta = gen.gen_grid(rng, cls, nmin=2, nmax=nmax, family='uniform')
            faces = fac_u
            g = Geom(cls, faces)
            m = gen.build_mesh(pf, cls, faces)
            rows = interior_index(g.dims)
            nfull = int(np.prod(g.full_shape()))
            for _ in range(60):
                spec = gen.gen_bc_spec(rng, g, lams=(1.0, -1.0, 2.5, 0.4))
                if gen.bc_nonsingular(g, spec):
                    break
            Darr, _ = gen.face_arrays(rng, g, 'random', positive=True)
            Darr = [np.clip(a, 1e-2, 1e2) for a in Darr]
            Mdiff = -pf.diffusionTerm(gen.facevar(pf, m, Darr))
            hmax = max(float(np.max(w)) for w in g.w)
            u0 = [np.full(g.face_shape(k), float(rng.choice([-1.0, 1.0])) * 0.3 * min(float(np.min(a)) for a in Darr) / hmax) for k in range(g.nd)]
            tset = 'D+central'
            bvec = np.asarray(pf.constantSourceTerm(pf.CellVariable(m, rng.normal(0, 1, g.dims))), dtype=float)
            old_vals, ffam = gen.cell_field(rng, g.dims, 'random')
            phi = pf.CellVariable(m, old_vals.copy(), gen.make_bc(pf, m, g, spec))
            dt = float(10 ** rng.uniform(-2, 1.5))
            arr = np.exp(rng.normal(0, 1, g.dims))
            alpha = pf.CellVariable(m, arr.copy()) if sub == 'alpha' else float(10 ** rng.uniform(-1, 1))
            akind = 'cellvar' if sub == 'alpha' else 'scalar'
            factors = [1.0, -1.0, 0.5, -1.0] if sub == 'flow' else [1.0, 1.0, 1.0, 1.0]
            default_path = bool(case['seed'][-1] % 2)
            for step, f_ in enumerate(factors):
                if sub == 'alpha' and step > 0:
                    how = str(rng.choice(['setter', 'setter+apply_BCs', 'copyto+apply_BCs', 'own-solve', 'slice+apply_BCs']))
                    new_a = np.exp(rng.normal(0, 1, g.dims))
                    if how == 'setter':
                        alpha.value = new_a
                    elif how == 'setter+apply_BCs':
                        alpha.value = new_a
                        alpha.apply_BCs()
                    elif how == 'slice+apply_BCs':
                        alpha.value[...] = new_a
                        alpha.apply_BCs()
                    elif how == 'copyto+apply_BCs':
                        np.copyto(alpha.value, new_a)       # untracked write, followed by the explicit refresh the documentation asks for
                        alpha.apply_BCs()
                    else:
                        # the coefficient is itself a transported quantity, advanced by its own equation
                        pf.solvePDE(alpha, [pf.transientTerm(alpha, 0.5, 1.0), -pf.diffusionTerm(pf.FaceVariable(m, 1.0))])
                    cov['alpha_refreshed:' + how] = cov.get('alpha_refreshed:' + how, 0) + 1
                aarr = np.array(np.asarray(alpha.value), dtype=float, copy=True) if sub == 'alpha' else np.full(g.dims, alpha)
                Mconv = pf.convectionTerm(gen.facevar(pf, m, [f_ * a for a in u0]))
                S = sp.csr_array(Mdiff + Mconv)
                old = np.array(phi.value, copy=True)
                spy = SpySolver()
                solve_with(pf, spy, phi, [pf.transientTerm(phi, dt, alpha), Mdiff, Mconv, bvec], default_path=default_path, allow_outside=True)
                M, b, x = spy.last
                if not np.all(np.isfinite(x)):
                    inconclusive = 'singular system'
                    break
                Mtr = sp.csr_array((aarr.ravel() / dt, (rows, rows)), shape=(nfull, nfull))
                rtr = np.zeros(nfull)
                rtr[rows] = aarr.ravel() * old.ravel() / dt
                e = residual_err(Mtr + S, x, rtr + bvec, rows, solver_output=True, solved=(M, b))
                maxerr['refresh-be-residual'] = max(maxerr.get('refresh-be-residual', 0.0), e)
                cov['refresh_steps:%s:%s' % (sub, 'default' if default_path else 'external')] = cov.get('refresh_steps:%s:%s' % (sub, 'default' if default_path else 'external'), 0) + 1
                if getattr(spy, 'observed_from_outside', 0):
                    cov['default_path_observed_from_outside'] = 1
                if not (e <= TOL):
                    bad.append(('refresh/be-residual', 'step %d at fixed dt %.3g after refreshing %s: alpha*(new-old)/dt + S new - b != 0 on interior cells (normalised %.3g)' % (
                        step + 1, dt, 'the storage coefficient' if sub == 'alpha' else 'the flow (factor %g)' % f_, e)))
                    break
        else:
            raise KeyError(kind)
    kv = gen.bc_kind_vector(g, spec)
    cov['kind:%s:%s' % (kind, cls)] = 1
    if spec['periodic']:
        cov['with_periodic'] = 1
    key = '%s/%s/%s/%s/%s/%s/%s' % (cls, meta['n'], meta['family'], kv, tset, kind, akind)
    sample = {'grid': gen.describe_grid(meta, faces), 'bc': kv, 'terms': tset, 'kind': kind, 'alpha': akind, 'field': ffam}
    if inconclusive and not bad:
        return {'verdict': 'inconclusive', 'key': key, 'msg': inconclusive, 'cov': cov, 'nontrivial': False}
    if bad:
        bad = sorted(set(bad))
        return {'verdict': 'violated', 'mech': bad[0][0], 'key': key, 'cov': cov, 'maxerr': maxerr, 'nontrivial': True,
                'msg': '; '.join(b[1] for b in bad)[:700],
                'witness': {'cls': cls, 'faces': [to_list(f) for f in faces], 'case': case, 'bc': kv, 'terms': tset}, 'sample': sample}
    return {'verdict': 'held', 'key': key, 'cov': cov, 'maxerr': maxerr, 'nontrivial': ffam != 'const', 'sample': sample}


KINDS = ['be-residual', 'fixed-point', 'limits', 'explicit', 'consistency', 'loop', 'refresh']


def plan(tier, seed):
    per = 10 if tier == 'quick' else 150
    chunks = []
    for ci, cls in enumerate(CLASSES):
        cases = []
        i = 0
        for kind in KINDS:
            for rep in range(per):
                cases.append({'cls': cls, 'kind': kind, 'seed': [seed, 12, ci, i], 'sub': ['explicit-update', 'mixed'][rep % 2] if kind != 'refresh' else ['alpha', 'flow'][(rep // 2) % 2], 'tunit': rep % 5 == 4})
                i += 1
        for k_ in range(NDIM[cls]):           # each periodic-capable axis periodic for sure (declared by one flag or both, see gen)
            if cls in ('Grid1D', 'Grid2D', 'Grid3D') or k_ > 0:
                for rep in range(4 if tier == 'quick' else 32):
                    cases.append({'cls': cls, 'kind': ['be-residual', 'loop'][rep % 2], 'seed': [seed, 12, ci, i], 'sub': 'mixed', 'force_periodic': k_})
                    i += 1
        step = 9 if NDIM[cls] == 3 else 25
        for j in range(0, len(cases), step):
            chunks.append(cases[j:j + step])
    return chunks


def floors(agg, tier):
    out = []
    for cls in CLASSES:
        for kind in KINDS:
            if agg['cov'].get('kind:%s:%s' % (kind, cls), 0) < 4:
                out.append('kind:%s:%s < 4' % (kind, cls))
    for k, need in (('be_steps', 50), ('fixed_point_steps', 40), ('limit_inf', 15), ('limit_zero', 15), ('explicit_steps', 50), ('consistency', 15),
                    ('alpha:scalar', 5), ('alpha:ndarray', 5), ('alpha:cellvar', 5), ('with_periodic', 10), ('loop:explicit-update', 15), ('loop:mixed', 15), ('loop_steps', 40), ('be_reported_steps', 50), ('be_wide_dt_steps', 20), ('spatial_part_as_tuple', 30), ('be_integer_dt_steps', 10), ('time_unit:large', 5), ('time_unit:small', 5), ('loop_steps_on_explicit_result', 30), ('refresh_steps:alpha:default', 20), ('refresh_steps:alpha:external', 20), ('refresh_steps:flow:default', 20), ('refresh_steps:flow:external', 20)):
        if agg['cov'].get(k, 0) < need:
            out.append('%s < %d' % (k, need))
    return out
