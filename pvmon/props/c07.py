"""C07 - discrete maximum principle: no overshoot, no negative concentrations.

Step monitor on every implicit solvePDE step of generated histories whose term list satisfies the stated preconditions
(re-verified from the observed objects), plus a sign-structure (Z-matrix) diagnosis of the captured system after
eliminating the ghost unknowns."""
import numpy as np
import scipy.sparse as sp

import pyfvtool as pf

from ..oracles import CLASSES, NDIM, SIDES, AXKIND, Geom
from .. import gen, ops
from ..common import SpySolver, interior_index, to_list, solve_with

ID = 'C07'
RULE = ('cases = (grid class, N, spacing family, BC kind per side in {Dirichlet with face-wise data, no-flux, periodic}, D>=0 field '
        'with contrast up to 1e8 and exact zeros, discretely divergence-free velocity family in {none, uniform Cartesian, radial '
        'q/r^p of either sign, discrete stream function with or without walls, flow along one non-radial coordinate with flux constant along it}, beta>=0 or none, dt over 8 decades, initial field '
        'family, 1..6 steps); every step is one monitored event; non-trivial = initial field not constant; distinct by (class, N, '
        'families, BC vector, flow family, term set, dt decade)')
ASSUMPTIONS = ['range tolerance = 1e-9*(range + max|values|) + 100*n*eps*(1 + dt/alpha*max_row|M|)*max|x| computed from the captured system '
               '(forward rounding error bound of an M-matrix solve)',
               'generator preconditions (D>=0, beta>=0, discrete divergence-freeness measured with the real divergenceTerm <= 1e-11) are '
               're-verified per case; a case failing them is inconclusive, not a violation']
EPS = np.finfo(float).eps
KEY_PER = 'periodic-axis-unequal-end-cells'


def bc_for(rng, g, cls, allow_periodic=True, positive=False):
    capable = [k for k in range(g.nd) if AXKIND[cls][k] in ('len', 'ang')]
    per = [k for k in capable if allow_periodic and rng.random() < 0.3]
    spec = {'periodic': per, 'sides': {}}
    dvals = {}
    for k in range(g.nd):
        for side in SIDES[k]:
            sh = g.side_shape(k)
            if rng.random() < 0.5:
                c = rng.normal(0, 1, sh) if (rng.random() < 0.7 and not positive) else np.abs(rng.normal(0, 1, sh))
                lam = float(rng.choice([1.0, 2.0, -1.0]))
                spec['sides'][side] = {'kind': 'D', 'a': np.zeros(sh), 'b': np.ones(sh) * lam, 'c': c * lam}
                if k not in per:
                    dvals[side] = c.ravel()
            else:
                spec['sides'][side] = {'kind': 'N0', 'a': np.ones(sh), 'b': np.zeros(sh), 'c': np.zeros(sh)}
    return spec, dvals


def flow_for(rng, g, m, spec, fams=('none', 'uniform', 'radial', 'stream-walls', 'stream-open', 'stream-walls', 'axis', 'axis', 'uniform-int'), retry=False):
    if retry:
        # geometry-directed cases: insist on a flow family that exists on this grid class (1D radial grids only know q/r^p)
        order = [str(f_) for f_ in rng.permutation([f_ for f_ in fams if f_ != 'none'])]
        for f_ in order:
            u_, fam_ = flow_for(rng, g, m, spec, fams=(f_,))
            if fam_ != 'none':
                return u_, fam_
        return flow_for(rng, g, m, spec, fams=('none',))
    fam = str(rng.choice(list(fams)))
    per = spec['periodic']
    u = None
    if fam == 'uniform':
        u = ops.uniform_flow(rng, g)
    elif fam == 'radial':
        u = ops.radial_flow(g, float(rng.choice([-1, 1]) * 10 ** rng.uniform(-1, 1)))
    elif fam.startswith('stream'):
        u = ops.stream_flow(rng, g, periodic_axes=per, amp=10 ** rng.uniform(-1, 1), walls=fam.endswith('walls'))
    elif fam == 'axis':
        u, _k = ops.axis_flow(rng, g)
    elif fam == 'uniform-int':
        # uniform Cartesian flow with whole-number components stored in integer arrays (u.xvalue = np.array([1, 1, 1, ...]))
        if g.cls in ('Grid1D', 'Grid2D', 'Grid3D'):
            dt_ = rng.choice([np.int64, np.int32])
            u = [np.full(g.face_shape(k), int(rng.integers(-3, 4)), dtype=dt_) for k in range(g.nd)]
    if u is None:
        fam = 'none'
        u = [np.zeros(g.face_shape(k)) for k in range(g.nd)]
    return u, fam


def z_matrix_rows(M, g):
    """eliminate ghost unknowns through the boundary rows; returns (offending interior cells with positive
    off-diagonals, max positive off-diagonal / diagonal)"""
    M = sp.csr_array(M).toarray()
    n = M.shape[0]
    I = interior_index(g.dims)
    mask = np.ones(n, dtype=bool)
    mask[I] = False
    G = np.flatnonzero(mask)
    try:
        X = np.linalg.solve(M[np.ix_(G, G)], M[np.ix_(G, I)])
    except np.linalg.LinAlgError:
        return None, None
    A = M[np.ix_(I, I)] - M[np.ix_(I, G)] @ X
    d = np.diag(A).copy()
    off = A - np.diag(d)
    scale = np.abs(A).sum(axis=1) + 1e-300
    pos = off.max(axis=1) / scale
    rows = np.flatnonzero((pos > 1e-9) | (d <= 0))
    return rows, float(pos.max()) if pos.size else 0.0


def run_case(case):
    rng = gen.rng_for(*case['seed'])
    cls = case['cls']
    nd = NDIM[cls]
    fam = case.get('family')
    thin = bool(case.get('thin'))
    n = None
    if thin:
        # a single cell along one axis (both of its faces are boundary faces), through-flow, strictly positive data: a
        # spurious sink or source in that cell leaves the admissible range immediately
        n = [int(rng.integers(1, 6 if nd < 3 else 4)) for _ in range(nd)]
        n[int(rng.integers(0, nd))] = 1
    gfam, gopts = gen.geo_opts(rng, case.get('geo'))
    faces, meta = gen.gen_grid(rng, cls, nmin=1 if not case.get('geo') else 2, nmax=case.get('nmax', 6 if nd < 3 else 4), family=gfam or fam, n=n, opts=gopts)
    g = Geom(cls, faces)
    m = gen.build_mesh(pf, cls, faces)
    spec, dvals = bc_for(rng, g, cls, positive=thin or bool(case.get('intflow')))
    cov, maxerr, bad = {}, {}, []
    if case.get('geo'):
        cov['geo:' + case['geo']] = 1
    intflow = bool(case.get('intflow'))
    lsc = float(gopts.get('lscale') or 1.0)
    gflow = g if lsc == 1.0 else Geom(cls, [np.asarray(f, dtype=float) / lsc if AXKIND[cls][k_] in ('len', 'rad') else f for k_, f in enumerate(faces)])
    u, flowfam = flow_for(rng, gflow, m, spec, fams=('none',) if case.get('ptoggle') else tuple(case['flows']) if case.get('flows') else ('uniform-int',) if intflow else ('uniform', 'axis', 'radial', 'axis', 'uniform-int') if thin else
                          ('none', 'uniform', 'radial', 'stream-walls', 'stream-open', 'stream-walls', 'axis', 'axis', 'uniform-int'), retry=bool(case.get('geo')))
    if thin:
        cov['thin_grid'] = 1
    if lsc != 1.0:
        u = [a * lsc for a in u]              # the same flow in the other length unit (velocities x L, diffusivities x L^2)
    dive = ops.discrete_div_error(m, g, u)
    D, _ = gen.face_arrays(rng, g, str(rng.choice(['sign', 'random'])), positive=True)
    if lsc != 1.0:
        D = [a * lsc ** 2 for a in D]
    if rng.random() < 0.3:
        D = [a * 10 ** rng.uniform(-4, 4, a.shape) for a in D]        # contrast up to 1e8
    if rng.random() < 0.15:
        D = [np.zeros_like(a) for a in D]                            # pure advection
    tset = 'D' if flowfam == 'none' else str(rng.choice(['D+upwind', 'D+upwind', 'upwind' if all(np.all(a == 0) for a in D) else 'D+upwind']))
    if all(np.all(a == 0) for a in D) and flowfam != 'none':
        tset = 'upwind'
    use_beta = rng.random() < 0.35
    beta = np.abs(rng.normal(0, 1, g.dims)) * 10 ** rng.uniform(-2, 2) if use_beta else None
    ffam = str(rng.choice(['random', 'step', 'spike', 'positive', 'poszeros'])) if not (thin or case.get('intflow')) else str(rng.choice(['positive', 'posconst']))
    if ffam == 'poszeros':
        vals = np.abs(rng.normal(0, 1, g.dims))
        vals[rng.random(g.dims) < 0.5] = 0.0
    elif ffam == 'posconst':
        vals = np.full(g.dims, float(np.exp(rng.normal())))
    else:
        vals, _ = gen.cell_field(rng, g.dims, ffam)
    # preconditions re-verified from the observed objects
    if dive > 1e-11 or any(np.any(a < 0) for a in D) or (beta is not None and np.any(beta < 0)):
        return {'verdict': 'inconclusive', 'key': 'precondition', 'msg': 'generator precondition failed (div %.3g)' % dive, 'nontrivial': False,
                'cov': {'precondition_failed': 1}}
    Tu = 1.0
    if case.get('tunit'):
        # time measured in another unit (nanosecond steps; or slow processes stepped in gigaseconds): rates x 1/T, steps x T
        Tu = float(10 ** (rng.uniform(-12, -9) if rng.random() < 0.6 else rng.uniform(8, 11)))
        D = [a / Tu for a in D]
        u = [a / Tu for a in u]
        if beta is not None:
            beta = beta / Tu
        cov['time_unit:%s' % ('small' if Tu < 1 else 'large')] = 1
        # boundary rows written in the same magnitude as the interior rows (multiplying (a, b, c) of a side by a non-zero factor
        # changes nothing, C03): keeps the system row-balanced, so that the range monitor stays decidable in these units
        for sd_ in spec['sides'].values():
            for nm_ in ('a', 'b', 'c'):
                sd_[nm_] = sd_[nm_] / Tu
    if case.get('geo'):
        # same row balancing on the special geometries (nanometre cells: D/h^2 ~ 1e16): boundary coefficients of the order of the
        # interior rows
        lam_ = max(float(np.max(a)) for a in D) / min(float(np.min(g.w[k_] * np.min(g.hscale(k_)))) for k_ in range(g.nd)) ** 2
        lam_ = float(10 ** np.round(np.log10(max(lam_, 1e-300)))) if lam_ > 0 else 1.0
        for sd_ in spec['sides'].values():
            for nm_ in ('a', 'b', 'c'):
                sd_[nm_] = sd_[nm_] * lam_
    BC = gen.make_bc(pf, m, g, spec)
    for k_ in spec['periodic']:
        # a periodic axis declared by the flag of one side only (either flag suffices; the other side keeps whatever a, b, c it had)
        st_ = str(rng.choice(['both', 'low', 'high']))
        if st_ == 'low':
            getattr(BC, SIDES[k_][1]).periodic = False
        elif st_ == 'high':
            getattr(BC, SIDES[k_][0]).periodic = False
        cov['periodic_flag:' + st_] = cov.get('periodic_flag:' + st_, 0) + 1
    phi = pf.CellVariable(m, vals.copy(), BC)
    Df, uf = gen.facevar(pf, m, D), gen.facevar(pf, m, u)
    edit_bcs = bool(rng.random() < 0.5)
    edit_vals = bool(rng.random() < 0.4)
    rebuild = bool(rng.random() < 0.7)       # terms rebuilt every step from the same coefficient objects (typical time loop) or built once
    Mdiff = -pf.diffusionTerm(Df)
    Mconv = pf.convectionUpwindTerm(uf) if 'upwind' in tset else None
    Mbeta = pf.linearSourceTerm(pf.CellVariable(m, beta.copy())) if beta is not None else None
    nsteps = int(rng.integers(1, 7))
    ptoggle = bool(case.get('ptoggle'))
    if ptoggle:
        nsteps, edit_bcs = max(nsteps, 3), False
    vec_first = pf.constantSourceTerm(pf.CellVariable(m, 0.0)) if rng.random() < 0.4 else None
    if vec_first is not None:
        cov['source_vector_reused_first_in_list'] = 1
    rows = interior_index(g.dims)
    unequal = [k for k in spec['periodic'] if abs(g.w[k][0] - g.w[k][-1]) > 1e-12 * max(g.w[k][0], g.w[k][-1])]
    dts = []
    worst = 0.0
    known_only = True
    with np.errstate(all='ignore'):
        for step in range(nsteps):
            dt = float(10 ** rng.uniform(-4, 4)) * Tu
            if case.get('tunit') and step > 0 and rng.random() < 0.5:
                dt = dts[-1] * float(rng.choice([0.5, 2.0, 0.8, 1.25]))       # adaptive stepping: halve / double / adjust the previous step
            alpha = float(10 ** rng.uniform(-1, 1)) if not (case.get('tunit') and rng.random() < 0.5) else 1.0
            dts.append(dt)
            if step > 0 and edit_vals and rng.random() < 0.6:
                # the field itself is edited between steps through the public setter (operator splitting, a flush, a reset of
                # part of the domain): the admissible range of the next step is that of the edited field
                cur = np.array(phi.value, copy=True)
                howv = str(rng.choice(['relax', 'patch', 'scale']))
                if howv == 'relax':
                    phi.value = 0.5 * (cur + float(np.median(cur)))
                elif howv == 'patch':
                    cur[tuple(rng.integers(0, n_) for n_ in cur.shape)] = float(rng.choice([float(cur.min()), float(cur.max()), 0.5 * float(cur.min() + cur.max())]))
                    phi.value = cur
                else:
                    phi.value = cur * 0.5
                cov['value_edit_between_steps'] = cov.get('value_edit_between_steps', 0) + 1
            prev = np.array(phi.value, copy=True)
            if step > 0 and edit_bcs and rng.random() < 0.6:
                # boundary data switched between steps through the public setters (a feed turned on or off, a wall opened)
                ke = int(rng.integers(0, g.nd))
                if ke not in spec['periodic']:
                    side_e = SIDES[ke][int(rng.integers(0, 2))]
                    cand = [s_ for s_ in dvals if s_ in SIDES[ke]]
                    if cand and rng.random() < 0.7:
                        side_e = str(rng.choice(cand))          # prefer a side that currently carries Dirichlet data
                    fe = getattr(phi.BCs, side_e)
                    how = str(rng.choice(['fixedValue', 'c', 'noflux']))
                    if how == 'noflux':
                        fe.defaultNoFlux()
                        dvals.pop(side_e, None)
                    elif how == 'c' and side_e in dvals:
                        newc = np.broadcast_to(np.asarray(dvals[side_e]) if np.size(dvals[side_e]) == 1 else np.asarray(dvals[side_e]).reshape(np.shape(fe.c)), np.shape(fe.c)) * float(rng.choice([0.0, 0.5, -1.0])) + float(rng.choice([0.0, 1.0]))
                        fe.c = newc * np.asarray(fe.b)
                        dvals[side_e] = newc.ravel()
                    else:
                        v = float(rng.choice([0.0, 1.0, -2.0, float(rng.normal())]))
                        if rng.random() < 0.5:
                            v = float(np.median(prev))         # the old boundary value is then (typically) outside the new admissible range
                        if thin:
                            v = abs(v)
                        fe.fixedValue(v)
                        dvals[side_e] = np.array([v])
                    cov['bc_edit_between_steps:' + side_e] = cov.get('bc_edit_between_steps:' + side_e, 0) + 1
            if ptoggle and step == 1 and flowfam == 'none':
                # mid-run, an axis that carried boundary data is declared periodic (flag only; a, b, c stay as they were): from now
                # on that data is no data any more, the admissible range is that of the field and of the remaining Dirichlet sides
                capk = [k_ for k_ in range(g.nd) if gen.periodic_ok(cls, k_) and k_ not in spec['periodic']
                        and abs(g.w[k_][0] - g.w[k_][-1]) <= 1e-12 * max(g.w[k_][0], g.w[k_][-1])]
                havedata = [k_ for k_ in capk if any(s_ in dvals for s_ in SIDES[k_])]
                if havedata or capk:
                    kp_ = int(rng.choice(havedata or capk))
                    stp_ = str(rng.choice(['both', 'low', 'high']))
                    if stp_ in ('both', 'low'):
                        getattr(phi.BCs, SIDES[kp_][0]).periodic = True
                    if stp_ in ('both', 'high'):
                        getattr(phi.BCs, SIDES[kp_][1]).periodic = True
                    for s_ in SIDES[kp_]:
                        dvals.pop(s_, None)
                    spec['periodic'] = sorted(list(spec['periodic']) + [kp_])
                    cov['axis_declared_periodic_mid_run:%s' % ('with-data' if havedata else 'no-data')] = 1
            if rebuild and step > 0:
                Mdiff = -pf.diffusionTerm(Df)
                Mconv = pf.convectionUpwindTerm(uf) if 'upwind' in tset else None
            terms = [pf.transientTerm(phi, dt, alpha), Mdiff]
            if Mconv is not None:
                terms.append(Mconv)
            if Mbeta is not None:
                terms.append(Mbeta)
            if vec_first is not None:
                terms = [vec_first] + terms          # a (vanishing) source vector built once before the loop, first in every list
            terms = gen.vary_terms(rng, terms)       # ... and some matrices handed over as csc / coo / lil
            spy = SpySolver()
            solve_with(pf, spy, phi, terms, default_path=bool(case['seed'][-1] % 2))
            Mx, b, x = spy.last
            new = np.asarray(phi.value)
            if not np.all(np.isfinite(new)):
                return {'verdict': 'inconclusive', 'key': 'singular', 'msg': 'non-finite solution', 'nontrivial': False, 'cov': cov}
            pool = np.concatenate([prev.ravel()] + [np.asarray(v_, dtype=float).ravel() for v_ in dvals.values()])
            lo, hi = float(pool.min()), float(pool.max())
            if beta is not None:
                lo, hi = min(lo, 0.0), max(hi, 0.0)
            A = sp.csr_array(Mx).copy()
            A.data = np.abs(A.data)
            rowmax = float(np.max(np.asarray(A.sum(axis=1)).ravel()[rows]))
            n = Mx.shape[0]
            scale = (hi - lo) + max(abs(lo), abs(hi))
            tol = 1e-9 * scale + 100 * n * EPS * (1 + dt / alpha * rowmax) * float(np.max(np.abs(x)))
            # the sparse direct solve (SuperLU simple driver, no equilibration) is backward stable norm-wise only: relative to a
            # boundary row that is tiny next to the interior rows (nanosecond steps: alpha/dt ~ 1e12 next to b = 1) its error is
            # amplified by the ratio of the row scales (observed 6e-7 relative on the unchanged tree at ratio 1e14)
            srow = np.asarray(A @ np.abs(x)).ravel() + np.abs(b)
            gmask = np.ones(n, dtype=bool)
            gmask[rows] = False
            sb = srow[gmask]
            sb = sb[sb > 0]
            amp = float(np.max(srow)) / float(np.min(sb)) if sb.size else 1.0
            tol += 64 * n * EPS * amp * float(np.max(np.abs(x)))
            if tol > 1e-2 * scale:
                cov['steps_not_decidable_row_scaling'] = cov.get('steps_not_decidable_row_scaling', 0) + 1
                continue
            over = max(float(new.max()) - hi, lo - float(new.min()), 0.0)
            worst = max(worst, over / (scale + 1e-300))
            cov['steps'] = cov.get('steps', 0) + 1
            if dt >= 1e3 * Tu or dt <= 1e-3 * Tu:
                cov['extremal_dt_steps'] = cov.get('extremal_dt_steps', 0) + 1
            if over > tol:
                zr, zmax = z_matrix_rows(Mx, g) if Mx.shape[0] <= 1500 else (None, None)
                mech = 'overshoot'
                where = ''
                if zr is not None and len(zr):
                    cells = [tuple(int(c) for c in np.unravel_index(int(r), g.dims)) for r in zr]
                    where = '; rows with positive off-diagonals after ghost elimination: %r' % (cells[:6],)
                    # discriminating condition of the known finding: all offending rows touch the boundary of a periodic
                    # axis whose end cells have different widths
                    if unequal and all(any(c[k] in (0, g.N[k] - 1) for k in unequal) for c in cells):
                        mech = KEY_PER
                i = int(np.argmax(np.maximum(new - hi, lo - new)))
                bad.append((mech, 'step %d (dt %.3g, %s, flow %s, periodic %r): value %.12g outside [%.12g, %.12g] by %.3g (allowed %.3g)%s' % (
                    step + 1, dt, tset, flowfam, spec['periodic'], new.ravel()[i], lo, hi, over, tol, where)))
                break
    maxerr['overshoot/scale'] = worst
    kv = gen.bc_kind_vector(g, spec)
    cov['cases:%s' % cls] = 1
    cov['terms_rebuilt_each_step' if rebuild else 'terms_built_once'] = 1
    cov['flow:%s' % flowfam] = 1
    cov['terms:%s%s' % (tset, '+beta' if beta is not None else '')] = 1
    for s_ in spec['sides'].values():
        cov['bc:' + s_['kind']] = 1
    if spec['periodic']:
        cov['bc:periodic'] = 1
    key = '%s/%s/%s/%s/%s/%s/%s/%s' % (cls, meta['n'], meta['family'], kv, flowfam, tset, bool(use_beta), [int(np.log10(d / Tu)) for d in dts])
    sample = {'grid': gen.describe_grid(meta, faces), 'bc': kv, 'flow': flowfam, 'terms': tset, 'beta': bool(use_beta), 'dts': dts, 'field': ffam}
    if bad:
        return {'verdict': 'violated', 'mech': bad[0][0], 'key': key, 'cov': cov, 'maxerr': maxerr, 'nontrivial': True,
                'msg': '; '.join(b[1] for b in bad)[:800],
                'witness': {'cls': cls, 'faces': [to_list(f) for f in faces], 'case': case, 'bc': kv, 'flow': flowfam}, 'sample': sample}
    return {'verdict': 'held', 'key': key, 'cov': cov, 'maxerr': maxerr, 'nontrivial': ffam != 'const', 'sample': sample}


def plan(tier, seed):
    per = 60 if tier == 'quick' else 1200
    chunks = []
    for ci, cls in enumerate(CLASSES):
        cases = [{'cls': cls, 'seed': [seed, 7, ci, i], 'family': gen.FAMILIES[i % 5] if i % 3 else None} for i in range(per)]
        cases += [{'cls': cls, 'seed': [seed, 7, ci, 200000 + i], 'family': gen.FAMILIES[i % 5] if i % 2 else None, 'tunit': True} for i in range(per // 4)]
        cases += [{'cls': cls, 'seed': [seed, 7, ci, 400000 + i], 'family': None, 'geo': ['nano', 'offset', 'wild', 'negative', 'int', 'thinend', 'jitter', 'offset'][i % 8]} for i in range(per // 2)]
        # directed geometry x flow pairs: through-flow across the innermost face of tiny annuli / shells, genuinely multi-dimensional
        # divergence-free flow in boxes far from the origin (each face flux matters for the balance of a cell)
        dflows = ['radial', 'axis'] if NDIM[cls] == 1 and cls != 'Grid1D' else ['stream-walls', 'stream-open', 'radial']
        rad1 = NDIM[cls] == 1 and cls != 'Grid1D'
        cases += [{'cls': cls, 'seed': [seed, 7, ci, 500000 + i], 'family': None, 'geo': (['nano', 'nano', 'offset', 'nano', 'thinend'][i % 5] if rad1 else ['nano', 'offset', 'negative', 'thinend'][i % 4]), 'flows': dflows}
                  for i in range(per if rad1 else max(8, per // 5))]
        if any(gen.periodic_ok(cls, k_) for k_ in range(NDIM[cls])):
            cases += [{'cls': cls, 'seed': [seed, 7, ci, 600000 + i], 'family': ['uniform', 'symmetric'][i % 2], 'ptoggle': True} for i in range(max(10, per // 5))]
        if cls in ('Grid1D', 'Grid2D', 'Grid3D'):
            cases += [{'cls': cls, 'seed': [seed, 7, ci, 300000 + i], 'family': gen.FAMILIES[i % 5] if i % 2 else None, 'intflow': True}
                      for i in range(per // (2 if cls == 'Grid1D' else 6))]
        if NDIM[cls] > 1:
            cases += [{'cls': cls, 'seed': [seed, 7, ci, 100000 + i], 'family': gen.FAMILIES[i % 5] if i % 2 else None, 'thin': True} for i in range(per // 3)]
        step = 10 if NDIM[cls] == 3 else 30
        for j in range(0, len(cases), step):
            chunks.append(cases[j:j + step])
    return chunks


def floors(agg, tier):
    out = []
    for cls in CLASSES:
        if agg['cov'].get('cases:' + cls, 0) < 20:
            out.append('cases:%s < 20' % cls)
    for k, need in (('bc:D', 50), ('bc:N0', 50), ('bc:periodic', 20), ('flow:uniform', 3), ('flow:radial', 3), ('flow:stream-walls', 10),
                    ('flow:stream-open', 5), ('flow:axis', 10), ('terms:D', 10), ('terms:D+upwind', 10), ('extremal_dt_steps', 50), ('steps', 300), ('thin_grid', 50), ('source_vector_reused_first_in_list', 100), ('geo:nano', 10), ('geo:offset', 20), ('geo:thinend', 10), ('flow:uniform-int', 5), ('periodic_flag:low', 10), ('periodic_flag:high', 10), ('time_unit:small', 30), ('time_unit:large', 20), ('value_edit_between_steps', 50),
                    ('bc_edit_between_steps:left', 5), ('bc_edit_between_steps:right', 5), ('bc_edit_between_steps:bottom', 5), ('bc_edit_between_steps:top', 5),
                    ('bc_edit_between_steps:back', 3), ('bc_edit_between_steps:front', 3)):
        if agg['cov'].get(k, 0) < need:
            out.append('%s < %d' % (k, need))
    return out
