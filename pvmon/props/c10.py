"""C10 - grid geometry is exact: faces, centres, sizes and true cell volumes.

Shape: class invariant at a hook.  `check_mesh` is the invariant; it is evaluated on every
mesh this workload constructs (both constructor forms, all 9 classes) and is also attached by
pvmon.install to every mesh construction in other workloads."""
import math

import numpy as np

import pyfvtool as pf

from ..oracles import CLASSES, NDIM, LABELS, ALL_LABELS, AXKIND, SIDES, Geom
from .. import gen
from ..common import to_list

ID = 'C10'
RULE = ('cases = (grid class, constructor form, N per axis, face family, angular range kind); generated from seeded '
        'families (uniform/random ratio<=50/geometric/symmetric/smooth; r0=0 or offset; partial angular ranges; '
        'theta touching poles); non-trivial = at least one axis with N>=2 or non-unit domain; distinct by '
        '(class, form, N, families, r0=0?, theta-range kind)')
ASSUMPTIONS = ['oracle volumes are the closed-form integrals of the coordinate metric (oracles.Geom.vol_exact)',
               'N,L form is compared with tolerance 8 ulp of L; face form bit-for-bit']

KEY_SPH3D = 'SphericalGrid3D/cellvolume/theta-factor'


def _close(a, b, scale, ulps=8):
    a = np.asarray(a, dtype=float)
    b = np.asarray(b, dtype=float)
    if a.shape != b.shape:
        return False
    return bool(np.all(np.abs(a - b) <= ulps * np.finfo(float).eps * scale))


def check_mesh(m, cls, faces, form, L=None):
    """returns list of (mech, msg) violations for mesh m expected to be `cls` over `faces`.
    form: 'faces' (bit-for-bit) or 'NL' (equispaced from (N, L), tolerance in ulp of L)."""
    g = Geom(cls, faces)
    bad = []
    nd = g.nd
    ax = ['_x', '_y', '_z']
    if not (np.asarray(m.dims).shape == (nd,) and np.all(np.asarray(m.dims) == np.array(g.N))):
        bad.append(('dims', 'dims %r != N %r' % (m.dims, g.N)))
        return bad
    if not np.issubdtype(np.asarray(m.dims).dtype, np.integer):
        bad.append(('dims', 'dims dtype not integer'))
    for k in range(nd):
        fk = getattr(m.facecenters, ax[k])
        ck = getattr(m.cellcenters, ax[k])
        sk = getattr(m.cellsize, ax[k])
        scale = max(abs(g.faces[k][0]), abs(g.faces[k][-1]), 1e-300)
        if form == 'faces':
            if not (np.asarray(fk).shape == g.faces[k].shape and np.array_equal(fk, g.faces[k])):
                bad.append(('facecenters', 'axis %d facecenters differ from the given faces' % k))
            if not np.array_equal(ck, 0.5 * (g.faces[k][1:] + g.faces[k][:-1])):
                bad.append(('cellcenters', 'axis %d cellcenters not midway between faces' % k))
            if not np.array_equal(sk[1:-1], np.diff(g.faces[k])):
                bad.append(('cellsize', 'axis %d cellsize[1:-1] != diff(faces)' % k))
        else:
            if not _close(fk, g.faces[k], scale):
                bad.append(('facecenters', 'axis %d facecenters not k*L/N: %r' % (k, to_list(fk))))
            if not _close(ck, g.c[k], scale):
                bad.append(('cellcenters', 'axis %d cellcenters not (k-1/2)*L/N' % k))
            if not (np.asarray(sk).shape == (g.N[k] + 2,) and _close(sk[1:-1], g.w[k], scale)):
                bad.append(('cellsize', 'axis %d cellsize not L/N' % k))
        if np.asarray(sk).shape != (g.N[k] + 2,):
            bad.append(('cellsize', 'axis %d cellsize has shape %r' % (k, np.asarray(sk).shape)))
        else:
            if not (sk[0] == sk[1] and sk[-1] == sk[-2]):
                bad.append(('ghostsize', 'axis %d ghost sizes do not repeat the end cells' % k))
        if not np.all(np.diff(np.asarray(fk)) > 0):
            bad.append(('facecenters', 'axis %d faces not increasing' % k))
    # volumes
    V = np.asarray(m.cellvolume, dtype=float)
    Vex = g.vol_exact()
    if V.shape != Vex.shape:
        bad.append(('cellvolume-shape', 'cellvolume shape %r != dims %r' % (V.shape, Vex.shape)))
        return bad
    if not np.all(V > 0):
        bad.append(('cellvolume-sign', 'non-positive cell volume'))
    rel = np.abs(V - Vex) / Vex
    if np.any(rel > 1e-12):
        mech = 'cellvolume-percell'
        if cls == 'SphericalGrid3D':
            # discriminating condition of the known finding: the mismatch factors exactly as
            # (dtheta/pi) / ((cos th1 - cos th2)/2); r- and phi-factors must be exact.
            fr, fth, fph = g.vol_factors_sph3d()
            expect = (2 * fr)[:, None, None] * (g.w[1] / math.pi)[None, :, None] * fph[None, None, :]
            if np.all(np.abs(V - expect) <= 1e-12 * expect):
                mech = KEY_SPH3D
        i = np.unravel_index(np.argmax(rel), rel.shape)
        bad.append((mech, 'cellvolume%r = %.17g, exact %.17g (rel %.3g)' % (tuple(int(j) for j in i), V[i], Vex[i], rel[i])))
    tot = g.domain_volume()
    geo_tol = 1e-11 + 16 * np.finfo(float).eps * g.cond()       # differences of large face positions (far-off / very thin cells)
    if abs(Vex.sum() - tot) > geo_tol * tot:   # oracle self-consistency (never the code's fault)
        raise AssertionError('oracle volumes do not sum to the domain volume')
    if abs(V.sum() - tot) > geo_tol * tot and not any(b[0] in (KEY_SPH3D, 'cellvolume-percell') for b in bad):
        bad.append(('cellvolume-total', 'sum(cellvolume)=%.17g domain volume %.17g' % (V.sum(), tot)))
    # labels on the three coordinate containers
    for name in ('cellcenters', 'facecenters', 'cellsize'):
        obj = getattr(m, name)
        for lab in ALL_LABELS:
            try:
                val = getattr(obj, lab)
                ok = lab in LABELS[cls] and val is getattr(obj, ax[LABELS[cls].index(lab)])
                if not ok:
                    bad.append(('labels', '%s.%s reachable on %s (-> wrong axis or foreign label)' % (name, lab, cls)))
            except AttributeError:
                if lab in LABELS[cls]:
                    bad.append(('labels', '%s.%s missing on %s' % (name, lab, cls)))
    # vector components of a FaceVariable on this mesh: reachable only under the coordinate system's labels
    try:
        import pyfvtool as _pf
        fv = _pf.FaceVariable(m, 1.0)
        comp = {'x': 'xvalue', 'y': 'yvalue', 'z': 'zvalue', 'r': 'rvalue', 'theta': 'thetavalue', 'phi': 'phivalue'}
        internal = ['_xvalue', '_yvalue', '_zvalue']
        for lab in ALL_LABELS:
            try:
                val = getattr(fv, comp[lab])
                ok = lab in LABELS[cls] and val is getattr(fv, internal[LABELS[cls].index(lab)])
                if not ok:
                    bad.append(('labels', 'FaceVariable.%s reachable on %s (foreign label or wrong component)' % (comp[lab], cls)))
            except AttributeError:
                if lab in LABELS[cls]:
                    bad.append(('labels', 'FaceVariable.%s missing on %s' % (comp[lab], cls)))
    except Exception as e:     # constructing a FaceVariable failed: reported by C16, not a geometry verdict
        pass
    return bad


def use_and_recheck(rng, m, cls, faces, cov):
    """the grid "reports" the same geometry after it has been USED: location variables taken from it and edited in place, variables
    with non-default and periodic boundary conditions built on it, every term builder and a solve run on it. Returns check_mesh's
    verdict afterwards (the exact numbers again, bit for bit)."""
    from ..oracles import Geom
    g = Geom(cls, faces)
    nd = g.nd
    extra_bad = []
    with np.errstate(all='ignore'):
        X, F = pf.cellLocations(m), pf.faceLocations(m)
        for obj, names in ((X, ('_value',)), (F, ('_xvalue', '_yvalue', '_zvalue'))):
            for nm in names:
                a = getattr(obj, nm, None)
                if isinstance(a, np.ndarray) and a.size and a.dtype.kind == 'f':
                    a *= 3.0
                    a += 1.0
        ones_ = pf.CellVariable(m, 1.0)
        for src_ in (m, ones_):      # derived quantity read from the grid / from a variable and normalised in place
            w_ = src_.cellvolume
            if isinstance(w_, np.ndarray) and w_.size and w_.flags.writeable:
                w_ /= float(np.sum(w_))
        # ... the same variable still reports the grid's volumes, and its integral of 1 is the domain volume
        Vm_ = np.asarray(m.cellvolume, dtype=float)
        if not np.array_equal(np.asarray(ones_.cellvolume, dtype=float), Vm_):
            extra_bad.append(('cellvolume-of-variable', 'CellVariable.cellvolume differs from the grid\'s cellvolume after an earlier result of the same property was normalised in place'))
        if abs(float(ones_.domainIntegral()) - float(Vm_.sum())) > 1e-12 * abs(float(Vm_.sum())):
            extra_bad.append(('cellvolume-of-variable', 'domainIntegral() of the constant 1 is %r, the cell volumes sum to %r' % (float(ones_.domainIntegral()), float(Vm_.sum()))))
        # vector components written as whole arrays under each label of the coordinate system and read back under the same label
        from ..oracles import LABELS
        fvv = pf.FaceVariable(m, 0.0)
        comp_of = {'x': 'xvalue', 'y': 'yvalue', 'z': 'zvalue', 'r': 'rvalue', 'theta': 'thetavalue', 'phi': 'phivalue'}
        for lab_ in LABELS[cls]:
            attr_ = comp_of[lab_]
            cur_ = np.asarray(getattr(fvv, attr_), dtype=float)
            new_ = rng.normal(0, 1, cur_.shape)
            setattr(fvv, attr_, new_.copy())
            back_ = np.asarray(getattr(fvv, attr_), dtype=float)
            if back_.shape != new_.shape or not np.array_equal(back_, new_):
                extra_bad.append(('component-label', 'FaceVariable.%s = array on %s: reading %s back does not return the array that was assigned' % (attr_, cls, attr_)))
        comps_ = [fvv._xvalue, fvv._yvalue, fvv._zvalue]
        for j_ in range(nd, 3):
            if np.size(comps_[j_]):
                extra_bad.append(('component-label', 'assigning the %d components of %s through their labels left something in hidden component %d' % (nd, cls, j_)))
        if isinstance(X, (list, tuple)):
            for v in X:
                v.value = np.asarray(v.value) * 2.0 + 1.0
        spec = None
        per = [k for k in range(nd) if gen.periodic_ok(cls, k) and rng.random() < 0.6]
        for _ in range(20):
            spec = gen.gen_bc_spec(rng, g, periodic_axes=per)
            if gen.bc_nonsingular(g, spec):
                break
        phi = pf.CellVariable(m, rng.normal(0, 1, g.dims), gen.make_bc(pf, m, g, spec))
        D, _ = gen.face_arrays(rng, g, 'random', positive=True)
        u, _ = gen.face_arrays(rng, g, 'sign')
        Df, uf = gen.facevar(pf, m, D), gen.facevar(pf, m, u)
        terms = [pf.transientTerm(phi, 0.3, 1.0), -pf.diffusionTerm(Df), pf.convectionUpwindTerm(uf), pf.convectionTerm(uf) * 0.1,
                 pf.convectionTVDupwindRHSTerm(uf, phi, pf.fluxLimiter('SUPERBEE')), pf.linearSourceTerm(pf.CellVariable(m, 0.5)),
                 pf.constantSourceTerm(pf.CellVariable(m, 1.0))]
        pf.solvePDE(phi, terms)
        phi.apply_BCs()
        rhs = pf.divergenceTerm(Df * pf.gradientTerm(phi) - uf * pf.upwindMean(phi, uf))
        new = pf.solveExplicitPDE(phi, 1e-4, rhs)
        for fmean in (pf.linearMean, pf.arithmeticMean, pf.geometricMean, pf.harmonicMean):
            fmean(pf.CellVariable(m, np.abs(rng.normal(0, 1, g.dims)) + 0.1))
        new.domainIntegral()
        new.plotprofile()
        for k in per:                       # conditions switched back to non-periodic, one more solve
            for sd in SIDES[k]:
                getattr(phi.BCs, sd).periodic = False
        pf.solvePDE(phi, [pf.transientTerm(phi, 0.3, 1.0), -pf.diffusionTerm(Df)])
    cov['mesh_rechecked_after_use'] = 1
    return [(mech_ + '/after-use', msg_) for mech_, msg_ in extra_bad] + [(mech + '/after-use', 'after using the grid (location variables edited in place, periodic and Robin variables, all builders, solves): ' + msg)
            for mech, msg in check_mesh(m, cls, faces, 'faces')]


def run_case(case):
    rng = gen.rng_for(*case['seed'])
    cls = case['cls']
    nd = NDIM[cls]
    form = case['form']
    cov = {'mesh_checked:' + cls + ':' + form: 1}
    if form == 'faces':
        gfam, gopts = gen.geo_opts(rng, case.get('geo'))
        faces, meta = gen.gen_grid(rng, cls, nmin=1 if not case.get('geo') else 2, nmax=case.get('nmax', 6), family=gfam or case.get('family'), opts=gopts)
        if case.get('geo'):
            cov['geo:' + case['geo']] = 1
        m = gen.build_mesh(pf, cls, faces)
        bad = check_mesh(m, cls, faces, 'faces')
        if case.get('use'):
            first = {b_[0] for b_ in bad}          # (SphericalGrid3D: the known volume finding is there before and after)
            bad = bad + [x_ for x_ in use_and_recheck(rng, m, cls, faces, cov) if x_[0][:-len('/after-use')] not in first]
        polekind = ''
        if cls == 'SphericalGrid3D':
            polekind = ('N' if faces[1][0] == 0.0 else '') + ('S' if faces[1][-1] == math.pi else '')
        key = '%s/faces/%s/%s/r0=%s/%s' % (cls, meta['n'], meta['family'], meta['r0zero'], polekind)
        sample = {'form': 'faces', 'grid': gen.describe_grid(meta, faces)}
        nontrivial = True
    else:
        kinds = AXKIND[cls]
        n = [int(rng.integers(1, case.get('nmax', 12) + 1)) for _ in range(nd)]
        Ls = []
        for k in range(nd):
            if kinds[k] in ('len', 'rad'):
                Ls.append(float(np.exp(rng.uniform(math.log(1e-3), math.log(1e3)))) if rng.random() < 0.8 else float(rng.integers(1, 20)))
            elif kinds[k] == 'ang':
                Ls.append(2 * math.pi if rng.random() < 0.5 else float(rng.uniform(0.1, 2 * math.pi)))
            else:
                Ls.append(math.pi if rng.random() < 0.5 else float(rng.uniform(0.1, math.pi)))
        # the same numbers handed over as python ints / numpy integer or float32-free scalar types where they are whole numbers
        style = str(rng.choice(['plain', 'plain', 'int-L', 'numpy-scalars']))
        nargs, largs = list(n), list(Ls)
        if style == 'int-L':
            largs = [int(x) if float(x).is_integer() else x for x in Ls]
        elif style == 'numpy-scalars':
            nargs = [rng.choice([np.int64, np.int32, np.intp])(x) for x in n]
            largs = [np.int64(x) if float(x).is_integer() and rng.random() < 0.7 else np.float64(x) for x in Ls]
        cov['NL_argument_style:' + style] = 1
        # a twin built from the same numbers is used up first (its coordinate arrays are overwritten in place, e.g. by a user who
        # shifts the origin of THAT grid): the grid built next from the same numbers is exact all the same
        twin = getattr(pf, cls)(*(nargs + largs))
        for part in ('cellsize', 'cellcenters', 'facecenters'):
            for k in range(nd):
                arr_ = getattr(getattr(twin, part), ['_x', '_y', '_z'][k])
                if isinstance(arr_, np.ndarray) and arr_.flags.writeable:
                    arr_[...] = arr_ * 3.0 + 2.5
        cov['twin_with_same_arguments_scribbled'] = 1
        m = getattr(pf, cls)(*(nargs + largs))
        faces = [np.arange(n[k] + 1) * (Ls[k] / n[k]) for k in range(nd)]
        bad = check_mesh(m, cls, faces, 'NL')
        # (N, L) form must equal the face-position form on equispaced faces
        m2 = getattr(pf, cls)(*[np.linspace(0.0, Ls[k], n[k] + 1) for k in range(nd)])
        for part in ('cellsize', 'cellcenters', 'facecenters'):
            for k in range(nd):
                a = getattr(getattr(m, part), ['_x', '_y', '_z'][k])
                b = getattr(getattr(m2, part), ['_x', '_y', '_z'][k])
                if not _close(a, b, Ls[k], ulps=16):
                    bad.append(('NL-vs-faces', '%s axis %d differs between (N,L) and linspace-faces form' % (part, k)))
        V1, V2 = np.asarray(m.cellvolume), np.asarray(m2.cellvolume)
        if V1.shape != V2.shape or np.any(np.abs(V1 - V2) > 1e-11 * np.abs(V2)):
            bad.append(('NL-vs-faces', 'cellvolume differs between the two constructor forms'))
        cov['nl_vs_faces:' + cls] = 1
        key = '%s/NL/%s/%s' % (cls, n, ['%.3g' % x for x in Ls])
        sample = {'form': 'NL', 'cls': cls, 'N': n, 'L': Ls}
        nontrivial = True
    # a volume array the caller keeps is the caller's: reading the volumes of ANOTHER grid of the same class and shape (other
    # lengths) does not rewrite it
    try:
        keepV = m.cellvolume
        snapV = np.array(np.asarray(keepV), copy=True)
        sib = getattr(pf, cls)(*[np.asarray(f, dtype=float) * (1.7 if AXKIND[cls][k_] in ('len', 'rad') else 0.9) for k_, f in enumerate(faces)])
        np.asarray(sib.cellvolume)
        cov['kept_volume_probes'] = 1
        if not np.array_equal(np.asarray(keepV), snapV):
            bad.append(('volume-rewritten', 'the cellvolume array of one %s changed when the cellvolume of another grid of the same shape was read' % cls))
    except Exception as e_:
        bad.append(('volume-rewritten', 'kept-volume probe raised %s' % type(e_).__name__))
    cov['labels_checked'] = 24
    if bad:
        mechs = sorted(set(b[0] for b in bad))
        # a known finding must not mask an additional, different violation in the same case
        unknown = [b for b in bad if b[0] != KEY_SPH3D]
        mech = (cls + '/' + unknown[0][0]) if unknown else KEY_SPH3D
        return {'verdict': 'violated', 'mech': mech, 'key': key, 'nontrivial': nontrivial, 'cov': cov,
                'msg': '; '.join(b[1] for b in (unknown or bad))[:500],
                'witness': {'cls': cls, 'form': form, 'faces': [to_list(f) for f in faces], 'all': bad[:10]},
                'sample': sample}
    return {'verdict': 'held', 'key': key, 'nontrivial': nontrivial, 'cov': cov, 'sample': sample}


def plan(tier, seed):
    per = 40 if tier == 'quick' else 1500
    chunks = []
    idx = 0
    for cls in CLASSES:
        for form in ('faces', 'NL'):
            cases = []
            for i in range(per):
                fam = gen.FAMILIES[i % 5] if form == 'faces' and i % 2 == 0 else None
                cases.append({'cls': cls, 'form': form, 'seed': [seed, 10, idx, i], 'family': fam,
                              'nmax': 6 if tier == 'quick' else 12})
                if form == 'faces' and i % 4 == 1:     # ... and the grid is the same grid after it has been used
                    cases.append({'cls': cls, 'form': form, 'seed': [seed, 10, idx, 200000 + i], 'family': gen.FAMILIES[(i // 4) % 5], 'use': True,
                                  'nmax': 4 if NDIM[cls] < 3 else 3})
                if form == 'faces' and i % 3 != 1:     # tiny / huge length units and almost-uniform spacing
                    cases.append({'cls': cls, 'form': form, 'seed': [seed, 10, idx, 100000 + i], 'family': None, 'geo': ['nano', 'jitter', 'mega', 'int', 'offset', 'negative', 'wild'][(i - i // 3) % 7],
                                  'nmax': 6 if tier == 'quick' else 12})
            idx += 1
            step = 100 if NDIM[cls] < 3 else 50
            for j in range(0, len(cases), step):
                chunks.append(cases[j:j + step])
    return chunks


def floors(agg, tier):
    need = 30 if tier == 'quick' else 1000
    out = []
    if agg['cov'].get('mesh_rechecked_after_use', 0) < 60:
        out.append('mesh_rechecked_after_use < 60')
    for st in ('plain', 'int-L', 'numpy-scalars'):
        if agg['cov'].get('NL_argument_style:' + st, 0) < 30:
            out.append('NL_argument_style:%s < 30' % st)
    for geo in ('nano', 'jitter', 'mega', 'int', 'offset', 'negative', 'wild'):
        if agg['cov'].get('geo:' + geo, 0) < 20:
            out.append('geo:%s < 20' % geo)
    for cls in CLASSES:
        for form in ('faces', 'NL'):
            if agg['cov'].get('mesh_checked:%s:%s' % (cls, form), 0) < need:
                out.append('mesh_checked:%s:%s < %d' % (cls, form, need))
    return out
