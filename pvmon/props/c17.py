"""C17 - results do not depend on the unit system (dimensional homogeneity) + coefficient linearity.

Paired executions: system A (generated transient problem) and system B (every input rescaled by its dimension with
L, T, K); after every step K*x_A must satisfy B's captured system (residual based) and phi_B/K = phi_A directly."""
import numpy as np
import scipy.sparse as sp

import pyfvtool as pf

from ..oracles import CLASSES, NDIM, LIMITERS, SIDES, AXKIND, Geom
from .. import gen
from ..common import SpySolver, residual_err, interior_index, nerr, to_list, TOL, absmv
from ..ops import interior_rows_dense, entry_err

ID = 'C17'
RULE = ('cases = (grid class, N, spacing family, term set in {diffusion, +central, +upwind, +upwind+TVD(limiter), +sources}, BC kinds with '
        'Robin data, 1..4 steps, (L,T,K) in 10^[-6,6]^3 - half of them powers of two, small-amplitude fields base+eps*noise for the '
        'absolute-threshold probe) executed in two unit systems; plus operator-level coefficient linearity T(lambda c)=lambda T(c), '
        'T(c1+c2)=T(c1)+T(c2); non-trivial = (L,T,K) != (1,1,1) and field not constant; distinct by (class, N, families, BC vector, '
        'term set, limiter, decade of L,T,K)')
ASSUMPTIONS = ['angular face positions are not rescaled; all velocity / diffusive-flux components (also angular ones) are physical '
               'length/time quantities', 'direct comparison tolerance 1e-12*cond_1 of the captured system (skipped above 1e10)']


def scaled_faces(cls, faces, L):
    return [f * L if AXKIND[cls][k] in ('len', 'rad') else f.copy() for k, f in enumerate(faces)]


def hand_assemble(phi, terms):
    """boundary rows of the variable's current BCs + the sum of the very term objects handed to solvePDE"""
    if phi.BCs.modified or phi.value.modified:
        phi.apply_BCs()
    Mbc, bbc = pf.boundaryConditionsTerm(phi.BCs)
    M = sp.csr_array(Mbc).copy()
    b = np.array(bbc, dtype=float, copy=True)
    for t in terms:
        if isinstance(t, tuple):
            M = M + t[0]
            b = b + t[1]
        elif getattr(t, 'ndim', None) == 2:
            M = M + t
        else:
            b = b + np.asarray(t)
    return sp.csr_array(M), b


def run_units(case, rng, cls):
    nd = NDIM[cls]
    faces, meta = gen.gen_grid(rng, cls, nmin=1, nmax=case.get('nmax', 5 if nd < 3 else 3))
    g = Geom(cls, faces)
    pow2 = bool(rng.random() < 0.5)
    if pow2:
        L, T, K = [float(2.0 ** int(rng.integers(-20, 21))) for _ in range(3)]
    else:
        L, T, K = [float(10 ** rng.uniform(-6, 6)) for _ in range(3)]
    if case.get('wide'):
        # nanometre ... gigametre: absolute length tolerances hidden in the library (1e-8 is numpy's default atol) must not matter
        L = float(2.0 ** int(rng.integers(-33, 34))) if pow2 else float(10 ** rng.uniform(-10, 10))
        # ... and nanoseconds ... gigaseconds, nano ... giga field units (absolute thresholds on coefficients, time steps, values)
        if rng.random() < 0.6:
            T = float(2.0 ** int(rng.integers(-36, 37))) if pow2 else float(10 ** rng.uniform(-11, 11))
        if rng.random() < 0.6:
            K = float(2.0 ** int(rng.integers(-40, 34))) if pow2 else float(10 ** rng.uniform(-12, 10))
    facesB = scaled_faces(cls, faces, L)
    gB = Geom(cls, facesB)
    mA, mB = gen.build_mesh(pf, cls, faces), gen.build_mesh(pf, cls, facesB)
    capable = [k for k in range(g.nd) if AXKIND[cls][k] in ('len', 'ang') and abs(g.w[k][0] - g.w[k][-1]) <= 1e-12 * g.w[k][0]]
    per = [k for k in capable if rng.random() < 0.25]
    for _ in range(60):
        spec = gen.gen_bc_spec(rng, g, periodic_axes=per, lams=(1.0, -1.0, 2.5, 0.4))
        if gen.bc_nonsingular(g, spec):
            break
    specB = {'periodic': spec['periodic'], 'sides': {s: {'kind': v['kind'], 'a': v['a'] * L, 'b': v['b'].copy(), 'c': v['c'] * K} for s, v in spec['sides'].items()}}
    D, _ = gen.face_arrays(rng, g, 'random', positive=True)
    D = [np.clip(a, 1e-2, 1e2) for a in D]
    u, _ = gen.face_arrays(rng, g, 'sign')
    u = [np.sign(a) * np.clip(np.abs(a), 1e-2, 1e1) for a in u]
    intcoef = bool(case.get('intcoef'))
    if intcoef:
        # unit system A happens to have whole-number coefficients and time steps, stored in integer types; B holds the same
        # quantities as floats in its own units
        D, _ = gen.face_arrays(rng, g, 'int', positive=True)
        D = [np.maximum(a, 1) for a in D]
        u, _ = gen.face_arrays(rng, g, 'int')
    tset = case['tset']
    limname = str(rng.choice(LIMITERS))
    beta = np.abs(rng.normal(0, 1, g.dims))
    gamma = rng.normal(0, 1, g.dims)
    small = case.get('small', False)
    if small:
        eps_ = float(10 ** rng.uniform(-8, 0))
        vals = 1.0 + eps_ * rng.normal(0, 1, g.dims)
    else:
        vals, _ = gen.cell_field(rng, g.dims, str(rng.choice(['random', 'step', 'positive'])))
    cov, maxerr, bad = {}, {}, []

    def build(m, gg, sp_, Ls, Ts, Ks):
        phi = pf.CellVariable(m, vals * Ks, gen.make_bc(pf, m, gg, sp_))
        if intcoef and Ls == 1.0 and Ts == 1.0:
            Df, uf = gen.facevar(pf, m, D), gen.facevar(pf, m, u)              # the integer arrays as they are
        else:
            Df = gen.facevar(pf, m, [a * Ls ** 2 / Ts for a in D])
            uf = gen.facevar(pf, m, [a * Ls / Ts for a in u])
        return phi, Df, uf
    phiA, DA, uA = build(mA, g, spec, 1.0, 1.0, 1.0)
    phiB, DB, uB = build(mB, gB, specB, L, T, K)
    FL = pf.fluxLimiter(limname)
    default_solver = bool(case.get('default_solver'))
    nsteps = int(rng.integers(1, 5)) if not default_solver else int(rng.integers(2, 6))
    rows = interior_index(g.dims)
    with np.errstate(all='ignore'):
        dt_prev = None
        for step in range(nsteps):
            dt = float(10 ** rng.uniform(-3, 2))
            alpha = float(10 ** rng.uniform(-1, 1))
            if default_solver and dt_prev is not None and rng.random() < 0.7:
                dt, alpha = dt_prev[0] * float(rng.choice([0.75, 1.25, 0.5, 2.0])), dt_prev[1]      # adaptive stepping: modest changes
            dt_prev = (dt, alpha)
            dtA = dt
            if intcoef:
                dtA = [1, 2, 5, np.int64(3), np.int32(10)][int(rng.integers(0, 5))]
                dt = float(dtA)
                cov['integer_coefficient_steps'] = cov.get('integer_coefficient_steps', 0) + 1
            if step > 0:
                # every step starts from exactly corresponding states: otherwise the (cond-amplified) rounding difference of the
                # previous solves is fed through the nonlinear limiter and is mistaken for a unit dependence
                phiB.value = np.asarray(phiA.value) * K

            def terms(phi, m, Df, uf, Ts, Ks):
                t = [pf.transientTerm(phi, dtA if (intcoef and Ts == 1.0) else dt * Ts, alpha), -pf.diffusionTerm(Df)]
                if 'central' in tset:
                    t.append(pf.convectionTerm(uf))
                if 'upwind' in tset:
                    t.append(pf.convectionUpwindTerm(uf))
                if 'tvd' in tset:
                    t.append(pf.convectionTVDupwindRHSTerm(uf, phi, FL))
                if 'src' in tset:
                    t.append(pf.linearSourceTerm(pf.CellVariable(m, beta / Ts)))
                    t.append(pf.constantSourceTerm(pf.CellVariable(m, gamma * Ks / Ts)))
                return t
            if default_solver:
                # the library's own solver path (no external solver): the systems are assembled by hand from the very term objects,
                # and the variables left by solvePDE must satisfy their interior equations - in B with K * (values of A) as well
                tA, tB = terms(phiA, mA, DA, uA, 1.0, 1.0), terms(phiB, mB, DB, uB, T, K)
                (MA, bA), (MB, bB) = hand_assemble(phiA, tA), hand_assemble(phiB, tB)
                # the expert route as well: the hand-assembled systems through solveMatrixPDE, B's matrix in any sparse format
                fmt_ = str(rng.choice(['csr', 'csc', 'coo', 'lil', 'csc']))
                qA = pf.solveMatrixPDE(mA, MA, bA)
                qB = pf.solveMatrixPDE(mB, getattr(MB, 'to' + fmt_)(), bB)
                cov['solveMatrixPDE_format:' + fmt_] = cov.get('solveMatrixPDE_format:' + fmt_, 0) + 1
                xqA, xqB = np.asarray(qA._value, dtype=float).ravel(), np.asarray(qB._value, dtype=float).ravel()
                if np.all(np.isfinite(xqA)) and np.all(np.isfinite(xqB)):
                    sA_q = absmv(MA, xqA) + np.abs(bA)
                    pos_q = sA_q[sA_q > 0]
                    amp_q = float(np.max(sA_q)) / float(np.min(pos_q)) if pos_q.size else 1.0
                    allowed_q = TOL + 64.0 * len(sA_q) * np.finfo(float).eps * amp_q
                    if allowed_q <= 1e-4:
                        e_q = max(residual_err(MB, xqB, bB, solver_output=True), residual_err(MB, K * xqA, bB, solver_output=True))
                        maxerr['units-solveMatrixPDE'] = max(maxerr.get('units-solveMatrixPDE', 0.0), e_q)
                        if not (e_q <= allowed_q):
                            bad.append(('units-solveMatrixPDE', 'step %d (%s, L=%.3g T=%.3g K=%.3g): solveMatrixPDE on the system of unit system B handed over as %s does not return K times the solution of system A (normalised residual %.3g)' % (
                                step + 1, tset, L, T, K, fmt_, e_q)))
                            break
                pf.solvePDE(phiA, tA)
                pf.solvePDE(phiB, tB)
                xA, xB = np.asarray(phiA._value, dtype=float).ravel(), np.asarray(phiB._value, dtype=float).ravel()
                if not (np.all(np.isfinite(xA)) and np.all(np.isfinite(xB))):
                    return None, cov, maxerr, meta, faces, spec, (L, T, K), limname, 'singular system'
                worst_ = 0.0
                for lab_, M_, b_, x_ in (('A', MA, bA, xA), ('B', MB, bB, xB), ('B with K*A', MB, bB, K * xA)):
                    s_ = absmv(M_, x_) + np.abs(b_)
                    gm_ = np.ones(len(s_), dtype=bool)
                    gm_[rows] = False
                    sb_ = s_[gm_]
                    sb_ = sb_[sb_ > 0]
                    amp_ = float(np.max(s_)) / float(np.min(sb_)) if sb_.size else 1.0
                    allowed_ = TOL + 64.0 * len(s_) * np.finfo(float).eps * amp_
                    if allowed_ > 1e-4:
                        cov['default_path_steps_not_decidable'] = cov.get('default_path_steps_not_decidable', 0) + 1
                        continue
                    e_ = residual_err(M_, x_, b_, rows, solver_output=True)
                    worst_ = max(worst_, e_)
                    if not (e_ <= allowed_):
                        bad.append(('units-default-path', 'step %d (%s, default solver, L=%.3g T=%.3g K=%.3g, dt=%.3g): the values left by solvePDE (%s) do not satisfy the interior equations of the system its terms define (normalised %.3g, allowed %.3g)' % (
                            step + 1, tset, L, T, K, dt, lab_, e_, allowed_)))
                        break
                maxerr['units-default-path'] = max(maxerr.get('units-default-path', 0.0), worst_)
                cov['unit_default_path_steps'] = cov.get('unit_default_path_steps', 0) + 1
                if bad:
                    break
                continue
            sA, sB = SpySolver(), SpySolver()
            pf.solvePDE(phiA, terms(phiA, mA, DA, uA, 1.0, 1.0), externalsolver=sA)
            pf.solvePDE(phiB, gen.vary_terms(rng, terms(phiB, mB, DB, uB, T, K)), externalsolver=sB)
            MA, bA, xA = sA.last
            MB, bB, xB = sB.last
            if not (np.all(np.isfinite(xA)) and np.all(np.isfinite(xB))):
                return None, cov, maxerr, meta, faces, spec, (L, T, K), limname, 'singular system'
            e = residual_err(MB, K * xA, bB, solver_output=True)
            # x_A is a solver output of system A: its backward error is relative to A's LARGEST row; a row that is small in A and
            # (rescaled by its physical dimension) ordinary or dominant in B shows that error amplified by max(s_A)/s_A[row]
            sA_ = absmv(MA, xA) + np.abs(bA)
            pos_ = sA_[sA_ > 0]
            ampA = float(np.max(sA_)) / float(np.min(pos_)) if pos_.size else 1.0
            allowed_units = TOL + 64.0 * len(sA_) * np.finfo(float).eps * ampA
            maxerr['units-residual'] = max(maxerr.get('units-residual', 0.0), e if allowed_units <= 1e-4 else 0.0)
            cov['unit_steps'] = cov.get('unit_steps', 0) + 1
            if allowed_units > 1e-4:
                cov['unit_steps_not_decidable_row_scaling'] = cov.get('unit_steps_not_decidable_row_scaling', 0) + 1
            elif not (e <= allowed_units):
                r = sp.csr_array(MB) @ (K * xA) - bB
                s = absmv(MB, K * xA) + np.abs(bB)
                i = int(np.argmax(np.abs(r) / np.where(s > 0, s, 1)))
                bad.append(('units-residual', 'step %d (%s, limiter %s, L=%.3g T=%.3g K=%.3g): K*solution_A does not satisfy the system assembled in unit system B; worst row = cell %r (normalised %.3g)' % (
                    step + 1, tset, limname, L, T, K, tuple(map(int, np.unravel_index(i, g.full_shape()))), e)))
                break
            n = MA.shape[0]
            if n <= 500:
                cond = max(np.linalg.cond(MA.toarray(), 1), np.linalg.cond(MB.toarray(), 1))     # each solve has its own row scaling
                if np.isfinite(cond) and cond < 1e10:
                    sc = float(np.max(np.abs(phiA.value))) + 1e-300
                    d = float(np.max(np.abs(np.asarray(phiB.value) / K - np.asarray(phiA.value)))) / sc
                    maxerr['units-direct/cond'] = max(maxerr.get('units-direct/cond', 0.0), d / cond)
                    cov['unit_direct'] = cov.get('unit_direct', 0) + 1
                    if d > 1e-12 * cond + 1e-13:
                        bad.append(('units-direct', 'step %d (%s, L=%.3g T=%.3g K=%.3g): phi_B/K differs from phi_A by relative %.3g (cond %.3g)' % (step + 1, tset, L, T, K, d, cond)))
                        break
    cov['tset:' + tset] = 1
    if per:
        cov['with_periodic'] = 1
    if small:
        cov['small_amplitude'] = 1
    if pow2:
        cov['pow2_scales'] = 1
    if case.get('wide'):
        cov['wide_length_scale'] = 1
        if L < 1e-7:
            cov['length_scale_below_1e-7'] = 1
    return bad, cov, maxerr, meta, faces, spec, (L, T, K), limname if 'tvd' in tset else '', None


def run_tvd_homogeneity(case, rng, cls):
    """operator-level unit independence of the TVD correction: RHS_tvd(u*L/T, K*phi; faces*L) = (K/T) * RHS_tvd(u, phi; faces)
    for fields whose physical gradients are pushed towards the hard-coded absolute guards by extreme K/L"""
    nd = NDIM[cls]
    faces, meta = gen.gen_grid(rng, cls, nmin=2, nmax=5 if nd < 3 else 3)
    g = Geom(cls, faces)
    pow2 = True
    L, T = float(2.0 ** int(rng.integers(-10, 21))), float(2.0 ** int(rng.integers(-10, 11)))
    K = float(2.0 ** int(rng.integers(-40, 11)))
    facesB = scaled_faces(cls, faces, L)
    mA, mB = gen.build_mesh(pf, cls, faces), gen.build_mesh(pf, cls, facesB)
    eps_ = float(10 ** rng.uniform(-9, 0))
    base = float(rng.choice([0.0, 1.0]))
    full = base + eps_ * rng.normal(0, 1, g.full_shape())
    u, _ = gen.face_arrays(rng, g, 'sign')
    cov, maxerr, bad = {}, {}, []
    rows = interior_index(g.dims)
    worst, wname = 0.0, ''
    with np.errstate(all='ignore'):
        for name in LIMITERS:
            FL = pf.fluxLimiter(name)
            ra = np.asarray(pf.convectionTVDupwindRHSTerm(gen.facevar(pf, mA, u), pf.CellVariable(mA, full.copy()), FL))[rows]
            rb = np.asarray(pf.convectionTVDupwindRHSTerm(gen.facevar(pf, mB, [a * L / T for a in u]), pf.CellVariable(mB, full * K), FL))[rows]
            sc = float(np.max(np.abs(ra))) + 1e-300
            e = float(np.max(np.abs(rb * (T / K) - ra))) / sc if np.all(np.isfinite(rb)) and np.all(np.isfinite(ra)) else float('inf')
            cov['tvd_homogeneity_limiters'] = cov.get('tvd_homogeneity_limiters', 0) + 1
            if e > worst:
                worst, wname = e, name
    maxerr['tvd-homogeneity'] = worst
    # smallest physical gradient scale reached in unit system B (what the probe is about)
    gradB = K * eps_ / (L * max(float(np.max(w)) for w in g.w))
    cov['tvd_homogeneity'] = 1
    if gradB < 1e-15:
        cov['tvd_homogeneity_below_1e-15'] = 1
    if worst > 1e-9:
        bad.append(('tvd-absolute-threshold' if gradB < 1e-13 else 'tvd-homogeneity',
                    'TVD correction is not homogeneous: RHS_tvd in unit system B (L=%.3g T=%.3g K=%.3g, field amplitude %.3g, gradients ~%.3g in B) '
                    'differs from (K/T)*RHS_tvd in A by %.3g of max|RHS| (limiter %s)' % (L, T, K, eps_, gradB, worst, wname)))
    spec = None
    return bad, cov, maxerr, meta, faces, None, (L, T, K), wname, None


def run_linearity(case, rng, cls):
    nd = NDIM[cls]
    faces, meta = gen.gen_grid(rng, cls, nmin=1, nmax=4 if nd < 3 else 3)
    g = Geom(cls, faces)
    m = gen.build_mesh(pf, cls, faces)
    cov, maxerr, bad = {}, {}, []
    lam = float(rng.choice([-3.0, 0.37, 1e-6, 1e6, 2.0]))
    c1, _ = gen.face_arrays(rng, g, 'random')
    c2, _ = gen.face_arrays(rng, g, 'random')
    dirs = [rng.choice([-1.0, 1.0], a.shape) for a in c1]
    updir = gen.facevar(pf, m, dirs)
    fv = lambda arrs: gen.facevar(pf, m, arrs)
    builders = {
        'diffusionTerm': lambda a: pf.diffusionTerm(fv(a)),
        'convectionTerm': lambda a: pf.convectionTerm(fv(a)),
        'convectionUpwindTerm(u,u_upwind)': lambda a: pf.convectionUpwindTerm(fv(a), updir),
        'divergenceTerm': lambda a: pf.divergenceTerm(fv(a)),
    }
    with np.errstate(all='ignore'):
        for name, B in builders.items():
            T1, T2 = B(c1), B(c2)
            Tl = B([lam * a for a in c1])
            Ts = B([a + b for a, b in zip(c1, c2)])
            dense = (lambda X: sp.csr_array(X).toarray()) if sp.issparse(T1) else (lambda X: np.asarray(X).reshape(-1, 1))
            e1 = entry_err(dense(Tl), lam * dense(T1))
            A, Bm = dense(Ts), dense(T1) + dense(T2)
            d = np.abs(A - Bm)
            s = np.abs(dense(T1)) + np.abs(dense(T2))
            e2 = float(np.max(np.where(d == 0, 0.0, d / np.where(s > 0, s, 1.0)))) if d.size else 0.0
            maxerr['linearity:' + name] = max(e1, e2)
            cov['linearity:' + name] = 1
            if not (e1 <= 1e-12):
                bad.append(('linearity/' + name, '%s(lambda*c) != lambda*%s(c) for lambda=%g (entry error %.3g)' % (name, name, lam, e1)))
            if not (e2 <= 1e-12):
                bad.append(('linearity/' + name, '%s(c1+c2) != %s(c1)+%s(c2) (entry error %.3g)' % (name, name, name, e2)))
        # sources and gradient (linear in the cell field)
        b1, b2 = rng.normal(0, 1, g.dims), rng.normal(0, 1, g.dims)
        cvs = lambda a: pf.CellVariable(m, a.copy())
        for name, B in (('linearSourceTerm', lambda a: sp.csr_array(pf.linearSourceTerm(cvs(a))).toarray()),
                        ('constantSourceTerm', lambda a: np.asarray(pf.constantSourceTerm(cvs(a))).reshape(-1, 1)),
                        ('gradientTerm', lambda a: np.concatenate([x.ravel() for x in gen.facevar_arrays(pf.gradientTerm(cvs(a)), g.nd)]).reshape(-1, 1))):
            # scale: global magnitude of the result (a boundary-face gradient of exactly 0 vs a rounding-level one must not alarm)
            R1, R2, Rl, Rs = B(b1), B(b2), B(lam * b1), B(b1 + b2)
            hmin = min(float(np.min(g.w[k] * np.min(g.hscale(k)))) for k in range(g.nd)) if name == 'gradientTerm' else 1.0
            g1 = max(float(np.max(np.abs(R1))), float(np.max(np.abs(b1))) / hmin)
            g2 = max(float(np.max(np.abs(R2))), float(np.max(np.abs(b2))) / hmin)
            e1 = float(np.max(np.abs(Rl - lam * R1))) / (abs(lam) * g1)
            e2 = float(np.max(np.abs(Rs - (R1 + R2)))) / (g1 + g2)
            maxerr['linearity:' + name] = max(e1, e2)
            cov['linearity:' + name] = 1
            if not (e1 <= 1e-12 and e2 <= 1e-12):
                bad.append(('linearity/' + name, '%s is not linear in its coefficient field (scale %.3g, sum %.3g)' % (name, e1, e2)))
    spec = {'periodic': [], 'sides': {}}
    return bad, cov, maxerr, meta, faces, None, (lam, 1, 1), '', None


def run_explicit_reuse(case, rng, cls):
    """explicit steps in two unit systems with ONE right-hand-side array per system reused for every step (a precomputed source,
    step doubling from one slope): phi_B = K * phi_A after every step"""
    nd = NDIM[cls]
    faces, meta = gen.gen_grid(rng, cls, nmin=1, nmax=4 if nd < 3 else 3)
    g = Geom(cls, faces)
    L, T, K = [float(10 ** rng.uniform(-4, 4)) for _ in range(3)]
    gB = Geom(cls, scaled_faces(cls, faces, L))
    mA, mB = gen.build_mesh(pf, cls, faces), gen.build_mesh(pf, cls, gB.faces)
    for _ in range(60):
        spec = gen.gen_bc_spec(rng, g, lams=(1.0, -1.0, 2.5))
        if gen.bc_nonsingular(g, spec):
            break
    specB = gen.scale_spec(spec, L, K)
    vals = rng.normal(0, 1, g.dims)
    phiA = pf.CellVariable(mA, vals.copy(), gen.make_bc(pf, mA, g, spec))
    phiB = pf.CellVariable(mB, vals * K, gen.make_bc(pf, mB, gB, specB))
    nfull = int(np.prod(g.full_shape()))
    rA = rng.normal(0, 1, nfull)
    rB = rA * K / T
    layout = str(rng.choice(['plain', 'view', 'column']))
    if layout == 'view':
        bufA, bufB = np.zeros(2 * nfull), np.zeros(2 * nfull)
        bufA[:nfull], bufB[:nfull] = rA, rB
        rA, rB = bufA[:nfull], bufB[:nfull]            # contiguous views into larger buffers
    elif layout == 'column':
        rA, rB = rA.reshape(-1, 1), rB.reshape(-1, 1)
    cov, maxerr, bad = {'explicit_reuse:' + layout: 1}, {}, []
    dt = float(10 ** rng.uniform(-3, 0))
    with np.errstate(all='ignore'):
        for step in range(int(rng.integers(2, 5))):
            phiA = pf.solveExplicitPDE(phiA, dt, rA)
            phiB = pf.solveExplicitPDE(phiB, dt * T, rB)
            sc = float(np.max(np.abs(np.asarray(phiA._value)))) + 1e-300
            d = float(np.max(np.abs(np.asarray(phiB._value) / K - np.asarray(phiA._value)))) / sc
            maxerr['explicit-reuse'] = max(maxerr.get('explicit-reuse', 0.0), d)
            cov['explicit_reuse_steps'] = cov.get('explicit_reuse_steps', 0) + 1
            if not (d <= 1e-11):
                bad.append(('explicit-reuse', 'explicit step %d with a re-used right-hand-side array (%s, L=%.3g T=%.3g K=%.3g): phi_B/K differs from phi_A by relative %.3g' % (step + 1, layout, L, T, K, d)))
                break
    return bad, cov, maxerr, meta, faces, spec, (L, T, K), '', None


def run_case(case):
    rng = gen.rng_for(*case['seed'])
    cls = case['cls']
    kind = case['kind']
    if kind == 'explicit-reuse':
        bad, cov, maxerr, meta, faces, spec, LTK, lim, note = run_explicit_reuse(case, rng, cls)
    elif kind == 'units':
        bad, cov, maxerr, meta, faces, spec, LTK, lim, note = run_units(case, rng, cls)
    elif kind == 'tvd-homogeneity':
        bad, cov, maxerr, meta, faces, spec, LTK, lim, note = run_tvd_homogeneity(case, rng, cls)
    else:
        bad, cov, maxerr, meta, faces, spec, LTK, lim, note = run_linearity(case, rng, cls)
    g = Geom(cls, faces)
    kv = gen.bc_kind_vector(g, spec) if spec else ''
    cov['kind:%s:%s' % (kind, cls)] = 1
    dec = [int(np.floor(np.log10(abs(x)))) if x else 0 for x in LTK]
    key = '%s/%s/%s/%s/%s/%s/%s/%s' % (cls, meta['n'], meta['family'], kv, kind, case.get('tset', ''), lim, dec)
    sample = {'grid': gen.describe_grid(meta, faces), 'bc': kv, 'kind': kind, 'terms': case.get('tset'), 'limiter': lim, 'L,T,K': list(LTK)}
    if bad is None:
        return {'verdict': 'inconclusive', 'key': key, 'msg': note, 'cov': cov, 'nontrivial': False}
    if bad:
        return {'verdict': 'violated', 'mech': '%s/%s' % (cls, bad[0][0]), 'key': key, 'cov': cov, 'maxerr': maxerr, 'nontrivial': True,
                'msg': '; '.join(b[1] for b in bad)[:700],
                'witness': {'cls': cls, 'faces': [to_list(f) for f in faces], 'case': case, 'LTK': list(LTK), 'limiter': lim}, 'sample': sample}
    return {'verdict': 'held', 'key': key, 'cov': cov, 'maxerr': maxerr, 'nontrivial': True, 'sample': sample}


TSETS = ['D', 'D+central', 'D+upwind', 'D+upwind+tvd', 'D+upwind+tvd+src', 'D+src']


def plan(tier, seed):
    per = 4 if tier == 'quick' else 100
    chunks = []
    for ci, cls in enumerate(CLASSES):
        cases = []
        i = 0
        for tset in TSETS:
            for rep in range(per):
                cases.append({'cls': cls, 'kind': 'units', 'tset': tset, 'small': rep % 4 == 3, 'wide': rep % 2 == 1, 'seed': [seed, 17, ci, i]})
                i += 1
                cases.append({'cls': cls, 'kind': 'units', 'tset': tset, 'wide': rep % 2 == 0, 'default_solver': True, 'seed': [seed, 17, ci, i]})
                i += 1
                cases.append({'cls': cls, 'kind': 'units', 'tset': tset, 'intcoef': True, 'default_solver': rep % 2 == 1, 'seed': [seed, 17, ci, i]})
                i += 1
        for rep in range(3 if tier == 'quick' else 60):
            cases.append({'cls': cls, 'kind': 'linearity', 'seed': [seed, 17, ci, i]})
            i += 1
        for rep in range(6 if tier == 'quick' else 120):
            cases.append({'cls': cls, 'kind': 'tvd-homogeneity', 'seed': [seed, 17, ci, i]})
            i += 1
        for rep in range(6 if tier == 'quick' else 100):
            cases.append({'cls': cls, 'kind': 'explicit-reuse', 'seed': [seed, 17, ci, i]})
            i += 1
        step = 9 if NDIM[cls] == 3 else 27
        for j in range(0, len(cases), step):
            chunks.append(cases[j:j + step])
    return chunks


def floors(agg, tier):
    out = []
    for cls in CLASSES:
        if agg['cov'].get('kind:units:' + cls, 0) < 20:
            out.append('kind:units:%s < 20' % cls)
        if agg['cov'].get('kind:linearity:' + cls, 0) < 3:
            out.append('kind:linearity:%s < 3' % cls)
    for t in TSETS:
        if agg['cov'].get('tset:' + t, 0) < 20:
            out.append('tset:%s < 20' % t)
    for k, need in (('unit_steps', 300), ('unit_direct', 100), ('small_amplitude', 20), ('pow2_scales', 30), ('wide_length_scale', 60), ('unit_default_path_steps', 150), ('explicit_reuse_steps', 100), ('solveMatrixPDE_format:csc', 30), ('integer_coefficient_steps', 100), ('length_scale_below_1e-7', 8), ('tvd_homogeneity', 40), ('tvd_homogeneity_below_1e-15', 5)):
        if agg['cov'].get(k, 0) < need:
            out.append('%s < %d' % (k, need))
    return out
