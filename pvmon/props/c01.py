"""C01 - closed systems conserve domainIntegral(); interior face fluxes cancel.

1. Flux-telescoping monitor (operator level): V-weighted column sums of the interior rows of every flux-form term
   must equal the boundary-face flux functional predicted by the oracle geometry - decided on the full basis.
2. Integral-over-time monitor (solver level): closed systems (periodic / no-flux with zero wall-normal velocity),
   implicit and explicit steps; tolerance derived from the captured system.
3. Open systems: change of the integral equals dt * net boundary flux (oracle areas)."""
import numpy as np
import scipy.sparse as sp

import pyfvtool as pf

from ..oracles import CLASSES, NDIM, LIMITERS, SIDES, Geom
from .. import gen, ops
from ..common import SpySolver, interior_index, nerr, to_list, TOL, solve_with

ID = 'C01'
RULE = ('cases = (grid class, N, spacing family, kind): kind "telescoping" = V-weighted column sums of the interior rows of '
        'diffusionTerm / convectionTerm / convectionUpwindTerm (full basis of unit fields), sum V*divergenceTerm(F) on the full '
        'basis of unit face fields, sum V*TVD-correction with zero boundary-face velocity for all limiters, each compared with the '
        'oracle boundary-flux functional; kind "steps" = 1..5 implicit or explicit solver steps in a closed system (periodic axes '
        'with equal end cells, no-flux walls with zero wall-normal velocity) for dt over 12 decades; kind "open" = one Dirichlet/'
        'Robin side opened, integral change vs dt*net boundary flux. non-trivial = coefficient field not identically zero and '
        'field not constant; distinct by (class, N, families, kind, term, closure, sign-pattern hash)')
ASSUMPTIONS = ['V = mesh.cellvolume (what domainIntegral uses); boundary-face areas from the exact geometric oracle',
               'upwind/TVD closures use periodic axes whose first and last cells have equal widths; the unequal case is exercised with '
               'diffusion and central advection (explicit steps there are the known finding explicit/periodic-axis-unequal-end-cells)']

KEY_SPH = 'SphericalGrid3D/measure-mismatch'
KEY_UPW_PER = 'upwind-across-periodic-boundary'
KEY_UNEQ = 'explicit/periodic-axis-unequal-end-cells'


def boundary_functional(g, full, term, coef, udir=None, measure='exact'):
    """oracle: net outward... precisely sum over boundary faces of (+ high side, - low side) A_f * flux_f(full)
    which is what sum_i V_i (T full)_i must equal for T = div(flux)"""
    tot = 0.0
    for k in range(g.nd):
        A = g.area(k, measure)
        if term == 'diffusion':
            f = coef[k] * g.grad(full, k)
        elif term == 'central':
            f = coef[k] * g.lin(full, k)
        elif term == 'upwind':
            f = coef[k] * g.upwind(full, k, udir[k] if udir is not None else coef[k])
        else:
            raise KeyError(term)
        AF = A * f
        hi = [slice(None)] * g.nd
        lo = [slice(None)] * g.nd
        hi[k] = -1
        lo[k] = 0
        tot += AF[tuple(hi)].sum() - AF[tuple(lo)].sum()
    return tot


def telescoping(case, rng, cls, faces, meta, g, m):
    cov, maxerr, bad = {}, {}, []
    TOL = 1e-9 + 64 * np.finfo(float).eps * g.cond()      # V * (1/V-like factors): differences of large face positions cancel to eps*cond
    rows = interior_index(g.dims)
    V = np.asarray(m.cellvolume, dtype=float).ravel()
    term = case['term']
    nfull = int(np.prod(g.full_shape()))
    known = []
    if term in ('diffusion', 'central', 'upwind'):
        coef, cfam = gen.face_arrays(rng, g, case.get('ufam', 'sign'), positive=(term == 'diffusion'))
        fv = gen.facevar(pf, m, coef)
        M = {'diffusion': pf.diffusionTerm, 'central': pf.convectionTerm, 'upwind': pf.convectionUpwindTerm}[term](fv)
        A = ops.interior_rows_dense(M, g)
        w = V @ A
        wabs = V @ np.abs(A)
        B = np.zeros(nfull)
        Bm = np.zeros(nfull)
        for j in range(nfull):
            e = np.zeros(nfull)
            e[j] = 1.0
            B[j] = boundary_functional(g, e, term, coef)
            if cls == 'SphericalGrid3D':
                Bm[j] = boundary_functional(g, e, term, coef, measure='midpoint')
        err = nerr(w, B, wabs + np.abs(B))
        maxerr['telescoping-' + term] = err
        cov['basis_columns'] = nfull
        if not (err <= TOL):
            mech = term + '/telescoping'
            if cls == 'SphericalGrid3D':
                W = g.vol_midpoint().ravel()
                e2 = nerr(W @ A, Bm, W @ np.abs(A) + np.abs(Bm))
                maxerr['telescoping-own-measure-' + term] = e2
                if e2 <= TOL:
                    mech = KEY_SPH
            d = np.abs(w - B) / np.where(wabs + np.abs(B) > 0, wabs + np.abs(B), 1)
            j = int(np.argmax(np.where(np.isfinite(d), d, np.inf)))
            bad.append((mech, '%s on %s %r: unit field in cell %r changes sum(V*T phi) by %.12g but the boundary faces carry %.12g (normalised %.3g)' % (
                term, cls, meta['n'], tuple(map(int, np.unravel_index(j, g.full_shape()))), w[j], B[j], err)))
        nontrivial = any(np.any(a != 0) for a in coef)
        pattern = hash(tuple(np.sign(a).astype(int).tobytes() for a in coef)) & 0xFFFF
    elif term == 'divergence':
        err = 0.0
        worst = None
        errm = 0.0
        n = 0
        W = g.vol_midpoint().ravel() if cls == 'SphericalGrid3D' else None
        for k in range(g.nd):
            A = g.area(k, 'exact')
            Am = g.area(k, 'midpoint')
            sh = g.face_shape(k)
            for j in range(int(np.prod(sh))):
                F = [np.zeros(g.face_shape(q)) for q in range(g.nd)]
                F[k].flat[j] = 1.0
                d = np.asarray(pf.divergenceTerm(gen.facevar(pf, m, F))).ravel()[rows]
                idx = np.unravel_index(j, sh)
                expect = A[idx] if idx[k] == sh[k] - 1 else (-A[idx] if idx[k] == 0 else 0.0)
                s = V @ d
                sc = V @ np.abs(d) + abs(expect)
                e = 0.0 if s == expect else abs(s - expect) / (sc if sc > 0 else 1.0)
                n += 1
                if e > err:
                    err, worst = e, (k, tuple(map(int, idx)), s, expect)
                if W is not None:
                    expm = Am[idx] if idx[k] == sh[k] - 1 else (-Am[idx] if idx[k] == 0 else 0.0)
                    s2 = W @ d
                    sc2 = W @ np.abs(d) + abs(expm)
                    errm = max(errm, 0.0 if s2 == expm else abs(s2 - expm) / (sc2 if sc2 > 0 else 1.0))
        maxerr['telescoping-divergence'] = err
        cov['basis_faces'] = n
        if not (err <= TOL):
            mech = 'divergence/telescoping'
            if cls == 'SphericalGrid3D' and errm <= TOL:
                mech = KEY_SPH
            bad.append((mech, 'divergenceTerm on %s %r: unit flux on face %r of axis %d gives sum(V*div) = %.12g, boundary contribution %.12g (normalised %.3g)' % (
                cls, meta['n'], worst[1], worst[0], worst[2], worst[3], err)))
        nontrivial = True
        pattern = 0
    elif term == 'tvd':
        u, _ = gen.face_arrays(rng, g, 'sign')
        for k in range(g.nd):       # zero velocity on boundary faces
            idx = [slice(None)] * g.nd
            idx[k] = [0, -1]
            u[k][tuple(idx)] = 0.0
        uf = gen.facevar(pf, m, u)
        err, errm = 0.0, 0.0
        W = g.vol_midpoint().ravel() if cls == 'SphericalGrid3D' else None
        for name in LIMITERS:
            full = rng.normal(0, 1, g.full_shape())
            with np.errstate(all='ignore'):
                rhs = np.asarray(pf.convectionTVDupwindRHSTerm(uf, pf.CellVariable(m, full.copy()), pf.fluxLimiter(name))).ravel()[rows]
            s = V @ rhs
            sc = V @ np.abs(rhs)
            err = max(err, 0.0 if s == 0 else abs(s) / (sc if sc > 0 else 1.0))
            if W is not None:
                s2 = W @ rhs
                sc2 = W @ np.abs(rhs)
                errm = max(errm, 0.0 if s2 == 0 else abs(s2) / (sc2 if sc2 > 0 else 1.0))
            cov['tvd_limiters'] = cov.get('tvd_limiters', 0) + 1
        maxerr['telescoping-tvd'] = err
        if not (err <= TOL):
            mech = 'tvd/telescoping'
            if cls == 'SphericalGrid3D' and errm <= TOL:
                mech = KEY_SPH
            bad.append((mech, 'TVD correction on %s %r with zero boundary-face velocity does not sum to zero over the domain (normalised %.3g)' % (cls, meta['n'], err)))
        nontrivial = any(np.any(a != 0) for a in u)
        pattern = hash(tuple(np.sign(a).astype(int).tobytes() for a in u)) & 0xFFFF
    else:
        raise KeyError(term)
    cov['tel:%s:%s' % (term, cls)] = 1
    return bad, cov, maxerr, 'tel/%s/%d' % (term, pattern), {'term': term}, nontrivial


def unequal_ends(g, k):
    return abs(g.w[k][0] - g.w[k][-1]) > 1e-12 * g.w[k][0]


def closed_setup(rng, cls, g, want_periodic, allow_unequal=False):
    from ..oracles import AXKIND
    capable = [k for k in range(g.nd) if AXKIND[cls][k] in ('len', 'ang') and (allow_unequal or not unequal_ends(g, k))]
    periodic = [k for k in capable if want_periodic and (want_periodic == 'all' or rng.random() < 0.6)]
    spec = {'periodic': periodic, 'sides': {}}
    for k in range(g.nd):
        for side in SIDES[k]:
            sh = g.side_shape(k)
            spec['sides'][side] = {'kind': 'N0', 'a': np.ones(sh), 'b': np.zeros(sh), 'c': np.zeros(sh)}
    return spec


def make_periodic_compatible(arrs, periodic):
    for k in periodic:
        idx0 = [slice(None)] * arrs[k].ndim
        idx1 = [slice(None)] * arrs[k].ndim
        idx0[k] = 0
        idx1[k] = -1
        arrs[k][tuple(idx1)] = arrs[k][tuple(idx0)]
    return arrs


def steps(case, rng, cls, faces, meta, g, m):
    cov, maxerr, bad = {}, {}, []
    # periodic axes with unequal end cells: diffusion and central advection only (the upwind seam is a separate known finding)
    spec = closed_setup(rng, cls, g, case.get('periodic', True), allow_unequal=case['scheme'] in ('none', 'central') and cls != 'SphericalGrid3D')
    periodic = spec['periodic']
    uneq = [k for k in periodic if unequal_ends(g, k)]
    vals, ffam = gen.cell_field(rng, g.dims, str(rng.choice(['random', 'spike', 'step', 'positive'])))
    D, _ = gen.face_arrays(rng, g, str(rng.choice(['sign', 'random'])), positive=True)
    make_periodic_compatible(D, periodic)
    u, _ = gen.face_arrays(rng, g, 'sign')
    for k in range(g.nd):
        if k in periodic:
            continue
        idx = [slice(None)] * g.nd
        idx[k] = [0, -1]
        u[k][tuple(idx)] = 0.0          # zero wall-normal velocity on no-flux walls
    make_periodic_compatible(u, periodic)
    scheme = case['scheme']
    mode = case['mode']
    carry = case.get('carry', 'rebind')
    V = np.asarray(m.cellvolume, dtype=float)
    W = g.vol_midpoint() if cls == 'SphericalGrid3D' else None
    nsteps = int(rng.integers(1, 6)) if carry == 'rebind' else int(rng.integers(2, 6))
    rows = interior_index(g.dims)
    draws = [(float(10 ** rng.uniform(-6, 6)), float(10 ** rng.uniform(-1, 1)), str(rng.choice(LIMITERS)), float(10 ** rng.uniform(-3, 0)))
             for _ in range(nsteps)]
    upw_per = bool(periodic) and scheme in ('upwind', 'upwind+tvd') and any(np.any(u[k] != 0) for k in periodic)
    # extras of the implicit loop, drawn once (the re-run of the known-finding discriminator must repeat them)
    Fx, _ = gen.face_arrays(rng, g, 'random')
    for k in range(g.nd):
        idx = [slice(None)] * g.nd
        idx[k] = [0, -1]
        Fx[k][tuple(idx)] = 0.0          # no flux through the walls
    extras = {'alpha_var': bool(rng.random() < 0.35), 'flux_vec': bool(rng.random() < 0.35), 'F': Fx}
    if extras['alpha_var'] and mode == 'implicit':
        cov['alpha_cellvariable_refreshed_in_place'] = 1
    if extras['flux_vec'] and mode == 'implicit' and not periodic and cls != 'SphericalGrid3D':
        cov['flux_vector_reused_first_in_list'] = 1

    def simulate(u):
        """returns (message of first violating step or None, worst ratio, worst ratio in the operators' own measure, finite?)"""
        BC = gen.make_bc(pf, m, g, spec)
        phi = pf.CellVariable(m, vals.copy(), BC)
        # the documented time-loop idiom: a second variable holds the previous step and is refreshed with update_value()
        phi_old = pf.CellVariable(m, vals.copy(), gen.make_bc(pf, m, g, spec)) if carry == 'update' else None
        uf, Df = gen.facevar(pf, m, u), gen.facevar(pf, m, D)
        alpha_var = pf.CellVariable(m, 1.0) if (mode == 'implicit' and extras['alpha_var']) else None
        flux_vec = None
        if mode == 'implicit' and extras['flux_vec'] and not periodic and cls != 'SphericalGrid3D':
            Fp = [a.copy() for a in extras['F']]
            flux_vec = -pf.divergenceTerm(gen.facevar(pf, m, Fp))
        worst, worst_own, msg = 0.0, 0.0, None
        seam['explained'] = True
        with np.errstate(all='ignore'):
            for step in range(nsteps):
                leak = None
                dt_draw, alpha, limname, expl = draws[step]
                I0 = phi.domainIntegral()
                own0 = float((W * phi.value).sum()) if W is not None else None
                if mode == 'implicit':
                    dt = dt_draw if alpha_var is None else draws[0][0]        # (fixed time step while the storage coefficient changes)
                    alpha_arg = alpha
                    if alpha_var is not None:
                        # storage coefficient kept in ONE CellVariable that is refreshed in place every step (spatially uniform, so that
                        # domainIntegral() itself is the conserved quantity)
                        alpha_var.value = np.full(g.dims, alpha)
                        alpha_arg = alpha_var
                    terms = [pf.transientTerm(phi_old if carry == 'update' else phi, dt, alpha_arg), -pf.diffusionTerm(Df)]
                    if scheme == 'central':
                        terms.append(pf.convectionTerm(uf))
                    elif scheme.startswith('upwind'):
                        terms.append(pf.convectionUpwindTerm(uf))
                        if scheme.endswith('tvd'):
                            terms.append(pf.convectionTVDupwindRHSTerm(uf, phi, pf.fluxLimiter(limname)))
                    if flux_vec is not None:
                        terms = [flux_vec] + terms         # explicit divergence of a prescribed flux without wall-normal part: built once, first in the list
                    terms = gen.vary_terms(rng, terms)
                    spy = SpySolver()
                    solve_with(pf, spy, phi, terms, default_path=bool(case['seed'][-1] % 2))
                    Mx, b, x = spy.last
                    A = sp.csr_array(Mx).copy()
                    A.data = np.abs(A.data)
                    rowscale = (A @ np.abs(x) + np.abs(b))[rows].reshape(g.dims)
                    tol = 1e-9 * (dt / alpha) * float((V * rowscale).sum())
                    tol_own = 1e-9 * (dt / alpha) * float((W * rowscale).sum()) if W is not None else None
                    if carry == 'update':
                        phi_old.update_value(phi)
                else:
                    # explicit: dt below the diffusion/advection limit only to keep numbers finite
                    hmin = min(float(np.min(g.w[k] * np.min(g.hscale(k)))) for k in range(g.nd))
                    Dmax = max(float(np.max(a)) for a in D) + 1e-300
                    umax = max(float(np.max(np.abs(a))) for a in u) + 1e-300
                    dt = 0.2 * min(hmin ** 2 / Dmax / (2 * g.nd), hmin / umax) * expl
                    if scheme == 'central':
                        face = uf * pf.linearMean(phi) - Df * pf.gradientTerm(phi)
                    elif scheme.startswith('upwind'):
                        face = uf * pf.upwindMean(phi, uf) - Df * pf.gradientTerm(phi)
                    else:
                        face = -(Df * pf.gradientTerm(phi))
                    rhs = -pf.divergenceTerm(face)
                    if scheme.endswith('tvd'):
                        rhs = rhs + pf.convectionTVDupwindRHSTerm(uf, phi, pf.fluxLimiter(limname))
                    scale_rows = np.abs(np.asarray(rhs)).ravel()[rows].reshape(g.dims)
                    new = pf.solveExplicitPDE(phi, dt, rhs)
                    fa = [np.abs(a) for a in gen.facevar_arrays(face, g.nd)]
                    tot = np.zeros(g.dims)
                    for k in range(g.nd):
                        AF = g.area(k, 'exact') * fa[k]
                        hi = [slice(None)] * g.nd
                        lo = [slice(None)] * g.nd
                        hi[k] = slice(1, None)
                        lo[k] = slice(0, -1)
                        tot += AF[tuple(hi)] + AF[tuple(lo)]
                    tol = 1e-9 * (float((V * np.abs(phi.value)).sum()) + dt * float(tot.sum()) + dt * float((V * scale_rows).sum()))
                    tol_own = tol
                    if uneq:
                        # what the library's own boundary-face fluxes carry through the two images of each periodic seam
                        fs = gen.facevar_arrays(face, g.nd)
                        leak = 0.0
                        for k in uneq:
                            AF = g.area(k, 'exact') * fs[k]
                            hi = [slice(None)] * g.nd
                            lo = [slice(None)] * g.nd
                            hi[k] = -1
                            lo[k] = 0
                            leak += dt * float(AF[tuple(hi)].sum() - AF[tuple(lo)].sum())
                    if carry == 'update':
                        phi.update_value(new)
                    else:
                        phi = new
                if not np.all(np.isfinite(phi.value)):
                    return None, worst, worst_own, False
                I1 = phi.domainIntegral()
                dI = abs(I1 - I0)
                ratio = dI / tol if tol > 0 else (0.0 if dI == 0 else np.inf)
                worst = max(worst, ratio * 1e-9)
                if W is not None:
                    dO = abs(float((W * phi.value).sum()) - own0)
                    worst_own = max(worst_own, (dO / tol_own if tol_own > 0 else (0.0 if dO == 0 else np.inf)) * 1e-9)
                if ratio > 1.0:
                    if leak is None or abs((I1 - I0) + leak) > tol:
                        seam['explained'] = False
                    if msg is None:
                        msg = '%s step %d (%s, dt %.3g, periodic axes %r, unequal end cells on %r): domainIntegral %.15g -> %.15g (|change| %.3g, allowed %.3g)' % (
                            mode, step + 1, scheme, dt, periodic, uneq, I0, I1, dI, tol)
        return msg, worst, worst_own, True

    seam = {'explained': True}
    msg, worst, worst_own, finite = simulate(u)
    if not finite:
        return None, cov, maxerr, 'steps', {}, False, 'non-finite solution (singular system)'
    maxerr['steps-%s' % mode] = worst
    cov['steps:%s:%s' % (mode, scheme)] = 1
    cov['closure:%s' % ('periodic' if periodic else 'walls')] = 1
    if uneq:
        cov['periodic_unequal_ends:%s' % mode] = 1
    cov['solver_steps'] = nsteps
    cov['carry:%s:%s' % (carry, mode)] = 1
    if msg:
        mech = 'steps/%s/%s' % (mode, scheme)
        if cls == 'SphericalGrid3D' and worst_own <= 1e-9:
            mech = KEY_SPH
        elif uneq and mode == 'explicit' and seam['explained']:
            # discriminating condition of the known finding: every violating step changed the integral by exactly what the
            # library's own fluxes carry through the two images of the periodic seam (and by nothing else)
            mech = KEY_UNEQ
        elif upw_per:
            # discriminating condition of the known finding: the same history with the velocity through the periodic
            # boundary faces set to zero must conserve (to rounding)
            u2 = [a.copy() for a in u]
            for k in periodic:
                idx = [slice(None)] * g.nd
                idx[k] = [0, -1]
                u2[k][tuple(idx)] = 0.0
            msg2, w2, w2own, fin2 = simulate(u2)
            if fin2 and (msg2 is None or (cls == 'SphericalGrid3D' and w2own <= 1e-9)):
                mech = KEY_UPW_PER
        bad.append((mech, msg))
    return bad, cov, maxerr, 'steps/%s/%s/%s/%s' % (mode, scheme, carry, 'P' + ''.join(map(str, periodic))), \
        {'mode': mode, 'scheme': scheme, 'carry': carry, 'periodic_axes': periodic, 'steps': nsteps, 'field': ffam}, ffam != 'const', None


def reconfig(case, rng, cls, faces, meta, g, m):
    """closed-system history whose boundary conditions are reconfigured AFTER the variable exists, one side at a time,
    through the public setters: walls -> one axis periodic (flag on one side only) with through-flow, or an open
    Dirichlet side closed by defaultNoFlux(); every later step must conserve the integral"""
    from ..oracles import AXKIND
    cov, maxerr, bad = {}, {}, []
    V = np.asarray(m.cellvolume, dtype=float)
    W = g.vol_midpoint() if cls == 'SphericalGrid3D' else None
    rows = interior_index(g.dims)
    capable = [k for k in range(g.nd) if AXKIND[cls][k] in ('len', 'ang') and abs(g.w[k][0] - g.w[k][-1]) <= 1e-12 * g.w[k][0]]
    mode = case['mode']
    if mode == 'to-periodic' and not capable:
        mode = 'close-dirichlet'
    vals, ffam = gen.cell_field(rng, g.dims, 'random')
    D, _ = gen.face_arrays(rng, g, 'random', positive=True)
    u, _ = gen.face_arrays(rng, g, 'sign')
    u = [0.3 * a for a in u]
    for k in range(g.nd):
        idx = [slice(None)] * g.nd
        idx[k] = [0, -1]
        u[k][tuple(idx)] = 0.0
    phi = pf.CellVariable(m, vals.copy())           # default no-flux walls
    k = int(rng.choice(capable)) if mode == 'to-periodic' else int(rng.integers(0, g.nd))
    j = int(rng.integers(0, 2))
    side = SIDES[k][j]
    if mode == 'close-dirichlet':
        getattr(phi.BCs, side).fixedValue(float(rng.normal()))      # open system first
    others = []
    if mode == 'copies':
        # template + copies: one copy of a closed template is opened (and stepped); the template and every other copy - made
        # before or after - are closed systems of their own
        template = phi
        before = template.copy()
        opened = template.copy()
        getattr(opened.BCs, side).fixedValue(float(rng.normal()) + 2.0)
        with np.errstate(all='ignore'):
            pf.solvePDE(opened, [pf.transientTerm(opened, 0.1, 1.0), -pf.diffusionTerm(gen.facevar(pf, m, D))])
        after = template.copy()
        phi = [before, after, template][int(rng.integers(0, 3))]
    elif mode == 'shared-bc':
        # two variables built on ONE boundary-condition object (old/new pair, two species): the object is closed between steps and
        # both variables are refreshed with the explicit apply_BCs() the documentation prescribes for shared objects
        BCs = pf.BoundaryConditions(m)
        getattr(BCs, side).fixedValue(float(rng.normal()))
        phi = pf.CellVariable(m, vals.copy(), BCs)
        others = [pf.CellVariable(m, vals[::-1].copy() if g.nd == 1 else vals.copy() * 0.5 + 1.0, BCs)]
    Df = gen.facevar(pf, m, D)
    worst, msg = 0.0, None
    with np.errstate(all='ignore'):
        for step in range(4):
            if step == 1:
                if mode == 'to-periodic':
                    getattr(phi.BCs, side).periodic = True           # one flag only
                    make_periodic_compatible(D, [k])
                    idx = [slice(None)] * g.nd
                    idx[k] = [0, -1]
                    u[k][tuple(idx)] = float(rng.choice([-1.0, 1.0]) * rng.uniform(0.1, 0.5))   # through-flow across the periodic boundary
                    Df = gen.facevar(pf, m, D)
                elif mode == 'close-dirichlet':
                    getattr(phi.BCs, side).defaultNoFlux()
                elif mode == 'shared-bc':
                    getattr(phi.BCs, side).defaultNoFlux()
                    phi.apply_BCs()
                    for o_ in others:
                        o_.apply_BCs()
            if others:
                phi, others = others[0], others[1:] + [phi]          # the variables of the pair take turns
            uf = gen.facevar(pf, m, u)
            dt = float(10 ** rng.uniform(-3, 1))
            I0 = phi.domainIntegral()
            own0 = float((W * phi.value).sum()) if W is not None else None
            spy = SpySolver()
            pf.solvePDE(phi, [pf.transientTerm(phi, dt, 1.0), -pf.diffusionTerm(Df), pf.convectionTerm(uf)], externalsolver=spy)
            Mx, b, x = spy.last
            if not np.all(np.isfinite(phi.value)):
                return None, cov, maxerr, 'reconfig', {}, False, 'non-finite solution'
            if step == 0 and mode in ('close-dirichlet', 'shared-bc'):
                continue                                           # still open
            A = sp.csr_array(Mx).copy()
            A.data = np.abs(A.data)
            rowscale = (A @ np.abs(x) + np.abs(b))[rows].reshape(g.dims)
            tol = 1e-9 * dt * float((V * rowscale).sum())
            dI = abs(phi.domainIntegral() - I0)
            worst = max(worst, dI / tol * 1e-9 if tol > 0 else 0.0)
            own_ok = False
            if W is not None:
                own_ok = abs(float((W * phi.value).sum()) - own0) <= 1e-9 * dt * float((W * rowscale).sum())
            if dI > tol and msg is None and not own_ok:
                msg = 'after reconfiguring side %s (%s) on an existing variable, step %d: domainIntegral changed by %.3g (allowed %.3g)' % (side, mode, step + 1, dI, tol)
            elif dI > tol and own_ok and msg is None:
                msg = 'KNOWN'
    maxerr['reconfig'] = worst
    cov['reconfig:%s' % mode] = 1
    cov['reconfig_side:%s' % side] = 1
    if msg == 'KNOWN':
        bad.append((KEY_SPH, 'SphericalGrid3D measure mismatch in a reconfigured closed system'))
    elif msg:
        bad.append(('reconfig/%s' % mode, msg))
    return bad, cov, maxerr, 'reconfig/%s/%s' % (mode, side), {'mode': mode, 'side': side}, True, None


def open_system(case, rng, cls, faces, meta, g, m):
    """one implicit step with open (Dirichlet/Robin) sides: change of the integral = dt * net inflow through the
    boundary faces, evaluated from the solved field with the oracle's areas"""
    cov, maxerr, bad = {}, {}, []
    for _ in range(30):
        spec = gen.gen_bc_spec(rng, g)
        if gen.bc_nonsingular(g, spec):
            break
    BC = gen.make_bc(pf, m, g, spec)
    vals, ffam = gen.cell_field(rng, g.dims, 'random')
    phi = pf.CellVariable(m, vals.copy(), BC)
    D, _ = gen.face_arrays(rng, g, 'random', positive=True)
    u, _ = gen.face_arrays(rng, g, 'sign')
    scheme = case['scheme']
    uf, Df = gen.facevar(pf, m, u), gen.facevar(pf, m, D)
    V = np.asarray(m.cellvolume, dtype=float)
    dt = float(10 ** rng.uniform(-3, 2))
    I0 = phi.domainIntegral()
    terms = [pf.transientTerm(phi, dt, 1.0), -pf.diffusionTerm(Df)]
    if scheme == 'central':
        terms.append(pf.convectionTerm(uf))
    elif scheme == 'upwind':
        terms.append(pf.convectionUpwindTerm(uf))
    spy = SpySolver()
    with np.errstate(all='ignore'):
        pf.solvePDE(phi, terms, externalsolver=spy)
    Mx, b, x = spy.last
    if not np.all(np.isfinite(x)):
        return None, cov, maxerr, 'open', {}, False, 'non-finite solution'
    I1 = phi.domainIntegral()
    # boundary fluxes are read off the variable as it reports itself after the step (solved interior, boundary values re-imposed from
    # its boundary conditions); on periodic axes the solved ghost values are kept (the wrap is the C03 finding, not this property)
    full = np.asarray(phi._value, dtype=float).reshape(g.full_shape()).copy()
    xs = np.asarray(x).reshape(g.full_shape())
    for k_ in spec['periodic']:
        for j_ in (0, -1):
            idx_ = [slice(None)] * g.nd
            idx_[k_] = j_
            full[tuple(idx_)] = xs[tuple(idx_)]
    meas = 'exact'
    net = -boundary_functional(g, full, 'diffusion', [-d for d in D], measure=meas)   # diffusion flux is -D grad
    net = boundary_functional(g, full, 'diffusion', D, measure=meas)               # sum V div(D grad phi)
    if scheme == 'central':
        net -= boundary_functional(g, full, 'central', u, measure=meas)
    elif scheme == 'upwind':
        net -= boundary_functional(g, full, 'upwind', u, measure=meas)
    rows = interior_index(g.dims)
    A = sp.csr_array(Mx).copy()
    A.data = np.abs(A.data)
    rowscale = (A @ np.abs(x) + np.abs(b))[rows].reshape(g.dims)
    tol = 1e-9 * dt * float((V * rowscale).sum())
    # re-imposed boundary values carry the solver's norm-wise backward error relative to their own (possibly tiny) rows
    s_all = np.asarray(A @ np.abs(x)).ravel() + np.abs(b)
    gm = np.ones(len(s_all), dtype=bool)
    gm[rows] = False
    sb = s_all[gm]
    sb = sb[sb > 0]
    amp = float(np.max(s_all)) / float(np.min(sb)) if sb.size else 1.0
    tol = tol * (1.0 + 64.0 * len(s_all) * np.finfo(float).eps * amp / 1e-9)
    d = abs((I1 - I0) - dt * net)
    maxerr['open'] = d / tol * 1e-9 if tol > 0 else 0.0
    cov['open:%s' % scheme] = 1
    if d > tol:
        mech = 'open/%s' % scheme
        if cls == 'SphericalGrid3D':
            W = g.vol_midpoint()
            netm = boundary_functional(g, full, 'diffusion', D, measure='midpoint')
            if scheme in ('central', 'upwind'):
                netm -= boundary_functional(g, full, scheme, u, measure='midpoint')
            dm = abs((float((W * phi.value).sum()) - float((W * vals).sum())) - dt * netm)
            if dm <= 1e-9 * dt * float((W * rowscale).sum()):
                mech = KEY_SPH
        bad.append((mech, 'open system (%s, dt %.3g): domainIntegral changed by %.12g but dt*net boundary flux = %.12g (allowed mismatch %.3g)' % (
            scheme, dt, I1 - I0, dt * net, tol)))
    return bad, cov, maxerr, 'open/%s/%s' % (scheme, gen.bc_kind_vector(g, spec)), {'scheme': scheme, 'dt': dt, 'bc': gen.bc_kind_vector(g, spec)}, True, None


def run_case(case):
    rng = gen.rng_for(*case['seed'])
    cls = case['cls']
    nd = NDIM[cls]
    kind = case['kind']
    fam = case.get('family')
    if kind in ('steps', 'reconfig') and case.get('periodic', True) and fam is None:
        # end cells of equal width on most periodic cases; any family (unequal end cells) where the seam is expected to be exact
        fam = str(rng.choice(['uniform', 'symmetric', 'random', 'geometric', 'smooth'] if case.get('scheme') in ('none', 'central') else ['uniform', 'symmetric', 'random']))
    nmax = case.get('nmax', ((6 if nd < 3 else 4) if case.get('deep') else (4 if nd < 3 else 3)) if kind == 'tel' else (6 if nd < 3 else 4))
    gfam, gopts = gen.geo_opts(rng, case.get('geo'))
    faces, meta = gen.gen_grid(rng, cls, nmin=1 if not case.get('geo') else 2, nmax=nmax, family=gfam or fam, opts=gopts)
    g = Geom(cls, faces)
    m = gen.build_mesh(pf, cls, faces)
    note = None
    if kind == 'tel':
        bad, cov, maxerr, k2, extra, nontrivial = telescoping(case, rng, cls, faces, meta, g, m)
    elif kind == 'steps':
        bad, cov, maxerr, k2, extra, nontrivial, note = steps(case, rng, cls, faces, meta, g, m)
    elif kind == 'reconfig':
        bad, cov, maxerr, k2, extra, nontrivial, note = reconfig(case, rng, cls, faces, meta, g, m)
    else:
        bad, cov, maxerr, k2, extra, nontrivial, note = open_system(case, rng, cls, faces, meta, g, m)
    cov['kind:%s:%s' % (kind, cls)] = 1
    if case.get('geo'):
        cov['geo:' + case['geo']] = 1
    key = '%s/%s/%s/%s/%s' % (cls, meta['n'], meta['family'], k2, case.get('geo'))
    sample = dict({'grid': gen.describe_grid(meta, faces), 'kind': kind}, **extra)
    if bad is None:
        return {'verdict': 'inconclusive', 'key': key, 'msg': note, 'cov': cov, 'nontrivial': False}
    if bad:
        mech = bad[0][0]
        if mech not in (KEY_SPH, KEY_UPW_PER, KEY_UNEQ):
            mech = '%s/%s' % (cls, mech)
        return {'verdict': 'violated', 'mech': mech, 'key': key, 'cov': cov, 'maxerr': maxerr, 'nontrivial': True,
                'msg': '; '.join(b[1] for b in bad)[:700],
                'witness': {'cls': cls, 'faces': [to_list(f) for f in faces], 'case': case, 'extra': extra}, 'sample': sample}
    return {'verdict': 'held', 'key': key, 'cov': cov, 'maxerr': maxerr, 'nontrivial': nontrivial, 'sample': sample}


TERMS = ['diffusion', 'central', 'upwind', 'divergence', 'tvd']
SCHEMES = ['none', 'central', 'upwind', 'upwind+tvd']


def plan(tier, seed):
    q = tier == 'quick'
    chunks = []
    for ci, cls in enumerate(CLASSES):
        cases = []
        i = 0
        for term in TERMS:
            for rep in range(5 if q else 120):
                cases.append({'cls': cls, 'kind': 'tel', 'term': term, 'seed': [seed, 1, ci, i], 'ufam': ['sign', 'random', 'sign'][rep % 3], 'deep': (not q) and rep % 4 == 0,
                              'family': gen.FAMILIES[rep % 5] if rep % 2 else None})
                i += 1
        for term in TERMS:            # the operators on nanometre / megametre / almost-uniform / integer-typed grids
            for rep in range(7 if q else 42):
                cases.append({'cls': cls, 'kind': 'tel', 'term': term, 'seed': [seed, 1, ci, i], 'ufam': ['sign', 'random'][rep % 2], 'geo': ['nano', 'jitter', 'mega', 'int', 'offset', 'negative', 'wild'][rep % 7]})
                i += 1
        for mode in ('implicit', 'explicit'):
            for scheme in SCHEMES:
                for rep in range(12 if q else 120):
                    cases.append({'cls': cls, 'kind': 'steps', 'mode': mode, 'scheme': scheme, 'periodic': rep % 2 == 0, 'carry': 'update' if rep % 3 == 2 else 'rebind',
                                  'seed': [seed, 1, ci, i]})
                    i += 1
        for scheme in ('none', 'central', 'upwind'):
            for rep in range(3 if q else 60):
                cases.append({'cls': cls, 'kind': 'open', 'scheme': scheme, 'seed': [seed, 1, ci, i]})
                i += 1
        if NDIM[cls] > 1 or cls == 'Grid1D':
            # every periodic-capable axis periodic at once, end cells of different width (graded grids), implicit steps
            for scheme in ('none', 'central'):
                for rep in range(4 if q else 40):
                    cases.append({'cls': cls, 'kind': 'steps', 'mode': 'implicit', 'scheme': scheme, 'periodic': 'all', 'carry': 'rebind', 'family': ['random', 'geometric'][rep % 2],
                                  'seed': [seed, 1, ci, i]})
                    i += 1
        for mode in ('to-periodic', 'close-dirichlet', 'copies', 'shared-bc'):
            for rep in range(8 if q else 120):
                cases.append({'cls': cls, 'kind': 'reconfig', 'mode': mode, 'seed': [seed, 1, ci, i]})
                i += 1
        step = 12 if NDIM[cls] == 3 else 35
        for j in range(0, len(cases), step):
            chunks.append(cases[j:j + step])
    return chunks


def floors(agg, tier):
    out = []
    for cls in CLASSES:
        for t in TERMS:
            if agg['cov'].get('tel:%s:%s' % (t, cls), 0) < 5:
                out.append('tel:%s:%s < 5' % (t, cls))
        for kind, need in (('steps', 20), ('open', 6)):
            if agg['cov'].get('kind:%s:%s' % (kind, cls), 0) < need:
                out.append('kind:%s:%s < %d' % (kind, cls, need))
    for k in ('alpha_cellvariable_refreshed_in_place', 'flux_vector_reused_first_in_list', 'geo:nano', 'geo:jitter', 'geo:mega', 'geo:int', 'geo:offset', 'geo:negative', 'geo:wild', 'closure:periodic', 'closure:walls', 'carry:update:explicit', 'carry:update:implicit', 'carry:rebind:explicit', 'periodic_unequal_ends:implicit', 'periodic_unequal_ends:explicit', 'steps:implicit:upwind+tvd', 'steps:explicit:central', 'reconfig:to-periodic', 'reconfig:close-dirichlet', 'reconfig:copies', 'reconfig:shared-bc'):
        if agg['cov'].get(k, 0) < 10:
            out.append('%s < 10' % k)
    return out
