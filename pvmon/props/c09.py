"""C09 - no stale state: any edit history followed by a solve equals a fresh start.

History + executable reference model.  The model keeps only the VISIBLE state of every live variable (interior values,
per-side a/b/c arrays, per-side periodic flags, which BC record it shares); it never looks at flags, caches or ghosts.
After every letter the real variables' visible state is compared with the model; at every solve letter a FRESH
CellVariable is built from the model state (both construction styles), the same solve is run on it, and the history
variable must equal it (interior and boundary values)."""
import copy
import itertools

import numpy as np

import pyfvtool as pf

from ..oracles import CLASSES, NDIM, SIDES, AXKIND, Geom
from .. import gen
from ..common import to_list, digest

ID = 'C09'
RULE = ('cases = edit/solve histories over a ~25-letter alphabet (assign / element / slice / slice-of-slice / in-place-op on boundary '
        'coefficients, fixedValue, fixedGradient, newtonCooling, defaultNoFlux, periodic on/off one side or both, .value assign / '
        'slice-assign / op-assign, update_value, copy, arithmetic, funceval, sharing a BC object, apply_BCs, solvePDE, solveExplicitPDE '
        '(continuing with the returned variable, or keeping the input variable alive as well)) on up to 3 live variables: ALL histories up to depth k over a reduced alphabet '
        'on Grid1D(3) (k=3 quick, 4 thorough) and depth 2 on one small grid of every other class, random histories of length 5..25 '
        'on all 9 classes; every history ends with a solve of every live variable; non-trivial = history contains an edit letter '
        'and a solve; distinct by the letter sequence with arguments abstracted to kinds')
ASSUMPTIONS = ['documented usage: apply_BCs() is called before a variable is used by ghost-reading builders outside solvePDE (the explicit '
               'recipe does so); the implicit recipe uses only builders that do not read ghost values, so dirty-flag handling is decided by solvePDE',
               'real vs fresh compared with rtol 1e-11 (same floating-point operations, different summation order possible in sparse assembly)']
EXHAUSTIVE = {'quick': False, 'thorough': False}
KEY_SHARED = 'shared-BC-object/stale-cache'

BCNAMES = ('a', 'b', 'c')


class Fail(Exception):
    def __init__(self, mech, msg):
        super().__init__(msg)
        self.mech, self.msg = mech, msg


# ------------------------------------------------------------------ reference model
def new_record(g):
    rec = {'a': {}, 'b': {}, 'c': {}, 'per': {}}
    for k in range(g.nd):
        for side in SIDES[k]:
            sh = g.side_shape(k)
            rec['a'][side], rec['b'][side], rec['c'][side] = np.ones(sh), np.zeros(sh), np.zeros(sh)
            rec['per'][side] = False
    return rec


class World:
    """real variables + model side by side"""

    def __init__(self, cls, faces, coef, mirror=False):
        self.cls, self.faces = cls, faces
        self.g = Geom(cls, faces)
        self.m = gen.build_mesh(pf, cls, faces)
        self.real = []
        self.mod = []          # {'vals':..., 'rec': id}
        self.recs = {}
        self.nrec = 0
        self.coef = coef
        self.mirror = mirror
        self.groups = {}       # record id -> list of real BC objects mirroring it (mirror mode)
        self.events = 0
        self.solves = 0

    def sides(self):
        return [s for k in range(self.g.nd) for s in SIDES[k]]

    def add_var(self, vals, rec_id, realvar, slot=None):
        entry = {'vals': np.array(vals, dtype=float, copy=True), 'rec': rec_id}
        if slot is None or slot >= len(self.real):
            self.real.append(realvar)
            self.mod.append(entry)
        else:
            self.real[slot] = realvar
            self.mod[slot] = entry

    def bc_objects(self, i):
        """real BC objects that a BC edit on variable i must reach (mirror mode: all mirrors of the record)"""
        if self.mirror:
            return self.groups.setdefault(self.mod[i]['rec'], [self.real[i].BCs])
        return [self.real[i].BCs]

    # ---- comparison of visible state
    def check_visible(self, letter):
        for i, (rv, mv) in enumerate(zip(self.real, self.mod)):
            rec = self.recs[mv['rec']]
            if not np.array_equal(np.asarray(rv.value), mv['vals']):
                raise Fail('visible-values', 'after %r: interior values of variable %d differ from the model (aliasing or lost edit): real %r model %r' % (
                    letter, i, to_list(np.asarray(rv.value).ravel()[:4]), to_list(mv['vals'].ravel()[:4])))
            for side in self.sides():
                f = getattr(rv.BCs, side)
                for nm in BCNAMES:
                    ra = np.asarray(getattr(f, nm), dtype=float)
                    ma = rec[nm][side]
                    if ra.size != ma.size or not np.array_equal(ra.reshape(ma.shape), ma):
                        raise Fail('visible-bc', 'after %r: %s.%s of variable %d differs from the model: real %r model %r' % (
                            letter, side, nm, i, to_list(ra.ravel()[:4]), to_list(ma.ravel()[:4])))
                if bool(f.periodic) != bool(rec['per'][side]):
                    raise Fail('visible-periodic', 'after %r: periodic flag of %s of variable %d differs from the model' % (letter, side, i))
        self.events += 1

    # ---- fresh construction from the model
    def fresh(self, i, style):
        mv = self.mod[i]
        rec = self.recs[mv['rec']]
        m, g = self.m, self.g
        if style == 'bc-passed':
            BC = pf.BoundaryConditions(m)
            tgt = BC
        else:
            phi = pf.CellVariable(m, mv['vals'].copy())
            tgt = phi.BCs
        for side in self.sides():
            f = getattr(tgt, side)
            f.a, f.b, f.c = rec['a'][side].copy(), rec['b'][side].copy(), rec['c'][side].copy()
            if rec['per'][side]:
                f.periodic = True
        if style == 'bc-passed':
            phi = pf.CellVariable(m, mv['vals'].copy(), BC)
        return phi

    # ---- solve recipes (identical for history and fresh variables)
    def implicit(self, phi):
        c = self.coef
        m = self.m
        terms = [pf.transientTerm(phi, c['dt'], c['alpha']), -pf.diffusionTerm(gen.facevar(pf, m, c['D'])),
                 pf.convectionUpwindTerm(gen.facevar(pf, m, c['u'])), pf.constantSourceTerm(pf.CellVariable(m, c['gamma']))]
        return pf.solvePDE(phi, terms)

    def explicit(self, phi):
        c = self.coef
        m = self.m
        phi.apply_BCs()
        Df, uf = gen.facevar(pf, m, c['D']), gen.facevar(pf, m, c['u'])
        rhs = -pf.divergenceTerm(uf * pf.upwindMean(phi, uf) - Df * pf.gradientTerm(phi)) \
            + pf.convectionTVDupwindRHSTerm(uf, phi, pf.fluxLimiter('MinMod'))
        return pf.solveExplicitPDE(phi, c['dte'], rhs)

    def explicit_local(self, phi):
        """explicit step with a cell-local right-hand side (source - sink*phi): reads no ghost values, so no apply_BCs() call is
        owed by the caller and the dirty-state handling is entirely solveExplicitPDE's own"""
        c = self.coef
        m = self.m
        rhs = pf.constantSourceTerm(pf.CellVariable(m, c['gamma'])) - pf.linearSourceTerm(pf.CellVariable(m, 0.5)) @ np.asarray(phi._value).ravel()
        return pf.solveExplicitPDE(phi, c['dte'] * 10.0, rhs)

    def noncorner(self):
        sh = self.g.full_shape()
        cnt = np.zeros(sh, dtype=int)
        for k in range(len(sh)):
            idx = [slice(None)] * len(sh)
            idx[k] = [0, -1]
            cnt[tuple(idx)] += 1
        return cnt <= 1

    def compare_solve(self, i, kind, letter):
        run = self.implicit if kind == 'solve' else self.explicit
        mask = self.noncorner()
        try:
            res = run(self.real[i])
        except Exception as e:
            raise Fail('solve-raises/%s/%s' % (kind, type(e).__name__), 'history variable %d: %s raised %s: %s (after letters so far)' % (i, kind, type(e).__name__, str(e)[:160]))
        if kind == 'solve' and res is not self.real[i]:
            raise Fail('solve-identity', 'solvePDE did not return its variable')
        full_real = np.asarray(res._value, dtype=float)
        outs = []
        for style in ('bc-passed', 'bc-edited'):
            fr = self.fresh(i, style)
            fres = run(fr)
            outs.append(np.asarray(fres._value, dtype=float))
        if not np.all(np.isfinite(outs[0][mask])):
            raise Fail('__inconclusive__', 'fresh solve non-finite (singular configuration)')
        scale = float(np.max(np.abs(outs[0][mask]))) + 1e-300
        d01 = float(np.max(np.abs(outs[0] - outs[1])[mask])) / scale
        if d01 > 1e-11:
            raise Fail('fresh-styles-differ', 'fresh variables built with BCs passed in vs defaulted-then-edited give different results (rel %.3g)' % d01)
        if not np.all(np.isfinite(full_real[mask])):
            raise Fail('stale/%s' % kind, 'variable %d: %s after the history gives non-finite values, a fresh variable does not' % (i, kind))
        d = float(np.max(np.abs(full_real - outs[0])[mask])) / scale
        self.solves += 1
        if d > 1e-11:
            j = np.unravel_index(int(np.argmax(np.abs(full_real - outs[0]) * mask)), full_real.shape)
            raise Fail('stale/%s' % kind, 'variable %d: %s after the history differs from a fresh start with the same interior values and BCs: cell %r real %.12g fresh %.12g (rel %.3g)' % (
                i, kind, tuple(map(int, j)), full_real[j], outs[0][j], d))
        # model continues from the fresh result
        it = tuple(slice(1, -1) for _ in range(self.g.nd))
        self.mod[i]['vals'] = np.array(np.asarray(res.value), copy=True)
        if kind == 'explicit':
            self.real[i] = res
            if self.mirror:
                pass
        return d


# ------------------------------------------------------------------ letters
def apply_letter(W, L):
    """apply one letter to the real variables and to the model"""
    name = L[0]
    g = W.g
    if name == 'bc':
        _, i, side, nm, how, val = L
        rec = W.recs[W.mod[i]['rec']]
        arr = rec[nm][side]
        for BC in W.bc_objects(i):
            f = getattr(BC, side)
            if how == 'assign':
                setattr(f, nm, val)
            elif how == 'elem':
                x = getattr(f, nm)
                x[(0,) * x.ndim] = val
            elif how == 'slice':
                getattr(f, nm)[..., 0:1] = val
            elif how == 'subslice':
                getattr(f, nm)[..., 0:][..., 0:1] = val
            elif how == 'keptview':
                # a view of the coefficient array taken once and kept by the caller (c_in = BC.left.c[..., 0:1]); every later
                # change of the data is written through it. The object is kept alive with the view (ids are not reused).
                kept = W.__dict__.setdefault('kept', {})
                ent = kept.get((id(BC), side, nm))
                if ent is None:
                    ent = kept[(id(BC), side, nm)] = (BC, getattr(f, nm)[..., 0:1])
                ent[1][...] = val
            elif how == 'iop':
                x = getattr(f, nm)
                x *= val
                setattr(f, nm, x)
            elif how == 'iop2':
                tmp = getattr(f, nm)
                tmp += val
                setattr(f, nm, tmp)
        if how == 'assign':
            arr[...] = val
        elif how == 'elem':
            arr[tuple(0 for _ in arr.shape)] = val
        elif how in ('slice', 'subslice', 'keptview'):
            arr[..., 0:1] = val
        elif how == 'iop':
            arr *= val
        elif how == 'iop2':
            arr += val
    elif name == 'util':
        _, i, side, which, p = L
        rec = W.recs[W.mod[i]['rec']]
        for BC in W.bc_objects(i):
            f = getattr(BC, side)
            if which == 'fixedValue':
                f.fixedValue(p[0])
            elif which == 'fixedGradient':
                f.fixedGradient(p[0], scale_coeffs=p[1])
            elif which == 'newtonCooling':
                f.newtonCooling(p[0], p[1], p[2], reverse_direction=p[3])
            elif which == 'defaultNoFlux':
                f.defaultNoFlux()
        if which == 'fixedValue':
            rec['a'][side][...], rec['b'][side][...], rec['c'][side][...] = 0.0, 1.0, p[0]
        elif which == 'fixedGradient':
            rec['a'][side][...], rec['b'][side][...], rec['c'][side][...] = p[1], 0.0, p[1] * p[0]
        elif which == 'newtonCooling':
            h = -p[1] if p[3] else p[1]
            rec['a'][side][...], rec['b'][side][...], rec['c'][side][...] = p[0], h, h * p[2]
        else:
            rec['a'][side][...], rec['b'][side][...], rec['c'][side][...] = 1.0, 0.0, 0.0
    elif name == 'periodic':
        _, i, sides, flag = L
        rec = W.recs[W.mod[i]['rec']]
        for BC in W.bc_objects(i):
            for s in sides:
                getattr(BC, s).periodic = flag
        for s in sides:
            rec['per'][s] = bool(flag)
    elif name == 'value':
        _, i, how, val = L
        rv, mv = W.real[i], W.mod[i]
        first = tuple(0 for _ in range(g.nd))
        if how == 'scalar' or how == 'array':
            rv.value = val
            mv['vals'][...] = val
        elif how == 'elem':
            rv.value[first] = val
            mv['vals'][first] = val
        elif how == 'slice':
            rv.value[..., 0:2] = val
            mv['vals'][..., 0:2] = val
        elif how == 'iadd':
            rv.value += val
            mv['vals'] += val
        elif how == 'imul':
            rv.value *= val
            mv['vals'] *= val
        elif how == 'slice-iadd':
            rv.value[..., 0:1] += val
            mv['vals'][..., 0:1] += val
        elif how == 'fancy':                       # integer-array (fancy) indexing through the property
            ii = np.array([0, mv['vals'].shape[0] - 1])
            rv.value[ii] = val
            mv['vals'][ii] = val
        elif how == 'mask':                        # boolean-mask assignment
            msk = mv['vals'] > np.median(mv['vals'])
            rv.value[msk] = val
            mv['vals'][msk] = val
        elif how == 'list':                        # a nested python list instead of an array
            new_ = (mv['vals'] * 0.5 + val)
            rv.value = new_.tolist()
            mv['vals'][...] = new_
        # (assignment through .flat / np.put / fill is documented as NOT tracked by the dirty flags: not a supported edit)
    elif name == 'update_value':
        _, i, j = L
        W.real[i].update_value(W.real[j])
        W.mod[i]['vals'] = W.mod[j]['vals'].copy()
    elif name == 'copy':
        _, i, slot = L
        # the documented copy(), or python's copy.deepcopy of the whole variable (same contract: an equal, independent variable)
        new = W.real[i].copy() if (slot + i) % 3 else copy.deepcopy(W.real[i])
        W.nrec += 1
        W.recs[W.nrec] = copy.deepcopy(W.recs[W.mod[i]['rec']])
        W.add_var(W.mod[i]['vals'], W.nrec, new, slot)
    elif name == 'arith':
        _, kind, i, j, slot = L
        a, b = W.real[i], W.real[j]
        va, vb = W.mod[i]['vals'], W.mod[j]['vals']
        with np.errstate(all='ignore'):
            if kind == 'add':
                new, vals = a + b, va + vb
            elif kind == 'mulscalar':
                new, vals = a * 1.5, va * 1.5
            elif kind == 'rsub':
                new, vals = 2.0 - a, 2.0 - va
            elif kind == 'rmulscalar':
                new, vals = 2.5 * a, 2.5 * va
            elif kind == 'funceval':
                new, vals = pf.funceval(np.tanh, a), np.tanh(va)
            elif kind == 'neg':
                new, vals = -a, -va
            elif kind == 'radd0':            # the identities people write without thinking: 0 + x, sum([x]), 1 * x, x + 0, x / 1
                new, vals = 0 + a, va.copy()
            elif kind == 'sum1':
                new, vals = sum([a]), va.copy()
            elif kind == 'rmul1':
                new, vals = 1 * a, va.copy()
            elif kind == 'add0':
                new, vals = a + 0.0, va.copy()
            elif kind == 'div1':
                new, vals = a / 1, va.copy()
        W.nrec += 1
        W.recs[W.nrec] = copy.deepcopy(W.recs[W.mod[i]['rec']])
        W.add_var(vals, W.nrec, new, slot)
        # "ghost values are never stale": a variable produced by arithmetic reports boundary values consistent with its own
        # (copied) boundary conditions straight away - exactly those of a fresh variable with the same interior values
        k_new = slot if (slot is not None and slot < len(W.real)) else len(W.real) - 1
        if isinstance(new, pf.CellVariable) and new is not a and np.all(np.isfinite(np.asarray(new._value))):
            fr_ = W.fresh(k_new, 'bc-passed')
            msk_ = W.noncorner()
            d_ = np.abs(np.asarray(new._value, dtype=float) - np.asarray(fr_._value, dtype=float))[msk_]
            sc_ = float(np.max(np.abs(np.asarray(fr_._value, dtype=float)[msk_]))) + 1e-300
            if d_.size and float(np.max(d_)) / sc_ > 1e-12:
                raise Fail('stale/arith-ghosts', 'the variable produced by arithmetic (%s) reports boundary values that differ from those of a fresh variable with the same interior values and boundary conditions (rel %.3g)' % (kind, float(np.max(d_)) / sc_))
    elif name == 'share':
        _, i, slot, vals = L
        if W.mirror:
            BC = copy.deepcopy(W.real[i].BCs)
            W.groups.setdefault(W.mod[i]['rec'], [W.real[i].BCs]).append(BC)
        else:
            BC = W.real[i].BCs
        new = pf.CellVariable(W.m, np.array(vals, copy=True), BC)
        W.add_var(vals, W.mod[i]['rec'], new, slot)
    elif name == 'explicit-keep':
        # explicit step whose INPUT variable stays alive: the result (which shares the input's BC object, by construction of
        # solveExplicitPDE) goes to another slot; the old variable must remain fully usable
        _, i, slot = L
        if slot == i:
            slot = (i + 1) % 3
        old = W.real[i]
        fr = W.fresh(i, 'bc-passed')
        with np.errstate(all='ignore'):
            res = W.explicit_local(old)
            fres = W.explicit_local(fr)
        mask = W.noncorner()
        a, b = np.asarray(res._value, dtype=float), np.asarray(fres._value, dtype=float)
        if not np.all(np.isfinite(b[mask])):
            raise Fail('__inconclusive__', 'fresh explicit step non-finite')
        scale = float(np.max(np.abs(b[mask]))) + 1e-300
        if not np.all(np.isfinite(a[mask])) or float(np.max(np.abs(a - b)[mask])) / scale > 1e-11:
            raise Fail('stale/explicit', 'explicit step (input kept alive) differs from a fresh start')
        W.solves += 1
        if W.mirror:
            BCnew = copy.deepcopy(old.BCs)
            res.BCs = BCnew
            W.groups.setdefault(W.mod[i]['rec'], [old.BCs]).append(BCnew)
        W.add_var(np.array(np.asarray(res.value), copy=True), W.mod[i]['rec'], res, slot)
    elif name == 'apply':
        W.real[L[1]].apply_BCs()
    elif name in ('solve', 'explicit'):
        W.compare_solve(L[1], name, L)
        return
    else:
        raise KeyError(name)


def abstract(L):
    if L[0] == 'bc':
        return 'bc.%s.%s' % (L[3], L[4])
    if L[0] == 'util':
        return L[3]
    if L[0] == 'periodic':
        return 'periodic.%s.%d' % ('on' if L[3] else 'off', len(L[2]))
    if L[0] == 'value':
        return 'value.' + L[2]
    if L[0] == 'arith':
        return 'arith.' + L[1]
    return L[0]


# ------------------------------------------------------------------ history generation
def random_letter(rng, W, allow_share=True):
    g = W.g
    nv = len(W.real)
    i = int(rng.integers(0, nv))
    sides = W.sides()
    nonrad = [s for k in range(g.nd) for s in SIDES[k] if AXKIND[W.cls][k] in ('len', 'ang')]
    r = rng.random()
    if r < 0.22:
        side = str(rng.choice(sides))
        nm = str(rng.choice(BCNAMES))
        how = str(rng.choice(['assign', 'elem', 'slice', 'subslice', 'iop', 'iop2', 'assign', 'keptview', 'keptview']))
        if how == 'keptview':
            # always the same coefficient of the same side for a given variable: later letters of this kind write through the SAME view
            side, nm = sides[i % len(sides)], 'c'
        val = float(np.round(rng.normal(0, 1), 3))
        if nm == 'b' and abs(val) < 0.2:
            val = 0.7
        if how == 'iop':
            val = float(rng.choice([2.0, 0.5, -1.0]))
        if how == 'assign' and rng.random() < 0.5:
            k = [kk for kk in range(g.nd) if side in SIDES[kk]][0]
            val = np.round(rng.normal(0, 1, g.side_shape(k)), 3)
        return ('bc', i, side, nm, how, val)
    if r < 0.36:
        side = str(rng.choice(sides))
        which = str(rng.choice(['fixedValue', 'fixedGradient', 'newtonCooling', 'defaultNoFlux']))
        p = {'fixedValue': (float(np.round(rng.normal(), 3)),), 'fixedGradient': (float(np.round(rng.normal(), 3)), float(rng.choice([1.0, 2.0]))),
             'newtonCooling': (float(rng.uniform(0.5, 2)), float(rng.uniform(0.5, 2)), float(np.round(rng.normal(), 3)), bool(side in ('left', 'bottom', 'back'))),
             'defaultNoFlux': ()}[which]
        return ('util', i, side, which, p)
    if r < 0.44 and nonrad:
        k = [kk for kk in range(g.nd) if AXKIND[W.cls][kk] in ('len', 'ang')]
        k = int(rng.choice(k))
        which = str(rng.choice(['lo', 'hi', 'both']))
        ss = {'lo': [SIDES[k][0]], 'hi': [SIDES[k][1]], 'both': list(SIDES[k])}[which]
        return ('periodic', i, ss, bool(rng.random() < 0.6))
    if r < 0.60:
        how = str(rng.choice(['scalar', 'array', 'elem', 'slice', 'iadd', 'imul', 'slice-iadd', 'fancy', 'mask', 'list']))
        val = float(np.round(rng.normal(0, 1), 3))
        if how == 'array':
            val = np.round(rng.normal(0, 1, g.dims), 3)
        if how == 'imul':
            val = float(rng.choice([2.0, 0.5, -1.0]))
        return ('value', i, how, val)
    if r < 0.65 and nv > 1:
        j = int(rng.integers(0, nv))
        if j != i:
            return ('update_value', i, j)
    slot = int(rng.integers(0, 3))
    if r < 0.71:
        return ('copy', i, slot)
    if r < 0.78:
        return ('arith', str(rng.choice(['add', 'mulscalar', 'rsub', 'rmulscalar', 'funceval', 'neg', 'radd0', 'sum1', 'rmul1', 'add0', 'div1'])), i, int(rng.integers(0, nv)), slot)
    if r < 0.83 and allow_share:
        if slot == i:
            slot = (i + 1) % 3
        return ('share', i, slot, np.round(rng.normal(0, 1, g.dims), 3))
    if r < 0.88:
        return ('apply', i)
    if r < 0.95:
        return ('solve', i)
    if r < 0.98:
        return ('explicit', i)
    return ('explicit-keep', i, int(rng.integers(0, 3)))


def reduced_alphabet(g, cls):
    """fixed-parameter letters for the bounded-exhaustive part (variable 0 and 1)"""
    k0 = g.nd - 1
    A = [('bc', 0, 'left', 'c', 'assign', 0.7), ('bc', 0, 'right', 'a', 'elem', 0.4), ('util', 0, 'right', 'fixedValue', (1.5,)),
         ('util', 0, 'left', 'newtonCooling', (1.0, 2.0, 0.5, True)), ('value', 0, 'scalar', 0.3), ('value', 0, 'slice', 2.0), ('value', 0, 'iadd', 1.0),
         ('copy', 0, 1), ('share', 0, 1, np.full(g.dims, 0.25)), ('arith', 'mulscalar', 0, 0, 1), ('arith', 'radd0', 0, 0, 1), ('arith', 'rmulscalar', 0, 0, 1), ('apply', 0), ('solve', 0), ('explicit', 0),
         ('update_value', 0, 1), ('bc', 1, 'left', 'c', 'assign', -0.6), ('solve', 1), ('explicit-keep', 0, 1)]
    if AXKIND[cls][k0] in ('len', 'ang'):
        A.append(('periodic', 0, [SIDES[k0][0]], True))
        A.append(('periodic', 0, list(SIDES[k0]), False))
    return A


def valid(L, nv):
    idx = [L[1]] if L[0] not in ('arith',) else [L[2], L[3]]
    if L[0] == 'explicit-keep' and L[2] > nv:
        return False
    if L[0] == 'update_value':
        idx.append(L[2])
    return all(i < nv for i in idx)


def scale_letter(L, K):
    """the same letter in a field unit K times smaller/larger: everything that carries the dimension of the field is rescaled"""
    if L[0] == 'bc' and L[3] == 'c' and L[4] != 'iop':
        return L[:5] + (np.asarray(L[5]) * K if not np.isscalar(L[5]) else L[5] * K,)
    if L[0] == 'util':
        w, p_ = L[3], L[4]
        if w == 'fixedValue':
            return L[:4] + ((p_[0] * K,) + tuple(p_[1:]),)
        if w == 'fixedGradient':
            return L[:4] + ((p_[0] * K,) + tuple(p_[1:]),)
        if w == 'newtonCooling':
            return L[:4] + ((p_[0], p_[1], p_[2] * K, p_[3]),)
        return L
    if L[0] == 'value' and L[2] != 'imul':
        return L[:3] + (np.asarray(L[3]) * K if not np.isscalar(L[3]) else L[3] * K,)
    if L[0] == 'share':
        return L[:3] + (np.asarray(L[3]) * K,)
    return L


def first_variable(m, g, init, form):
    """the documented constructor forms of the initial variable: interior-shaped array, array including the ghost layer
    (the caller's ghost values are arbitrary: they are not part of the visible state), either one stored as integers"""
    if form == 'interior':
        return pf.CellVariable(m, init.copy())
    if form == 'interior-int':
        return pf.CellVariable(m, init.astype(np.int64))
    if form in ('interior-int-periodic', 'interior-periodic'):
        # boundary conditions handed to the constructor, first axis declared periodic by the flag of its low side
        BC = pf.BoundaryConditions(m)
        getattr(BC, SIDES[0][0]).periodic = True
        return pf.CellVariable(m, init.astype(np.int64) if '-int' in form else init.copy(), BC)
    full = np.zeros(g.full_shape())
    full[...] = 7.0
    full[tuple(slice(1, -1) for _ in range(g.nd))] = init
    if form == 'with-ghosts-int':
        return pf.CellVariable(m, full.astype(np.int64))
    return pf.CellVariable(m, full)


def run_history(cls, faces, coef, letters, mirror=False, init_form='interior'):
    W = World(cls, faces, coef, mirror=mirror)
    W.nrec = 1
    W.recs[1] = new_record(W.g)
    if init_form.endswith('periodic'):
        if AXKIND[cls][0] not in ('len', 'ang'):
            init_form = init_form.replace('-periodic', '')
        else:
            W.recs[1]['per'][SIDES[0][0]] = True
    v0 = first_variable(W.m, W.g, coef['init'], init_form)
    W.add_var(coef['init'], 1, v0)
    done = []
    try:
        W.check_visible('init')
        for L in letters:
            if not valid(L, len(W.real)):
                continue
            done.append(L)
            with np.errstate(all='ignore'):
                try:
                    apply_letter(W, L)
                except Fail:
                    raise
                except Exception as e:
                    raise Fail('letter-raises/%s/%s' % (abstract(L), type(e).__name__), 'letter %r raised %s: %s' % (abstract(L), type(e).__name__, str(e)[:160]))
            W.check_visible(abstract(L))
        for i in range(len(W.real)):
            done.append(('solve', i))
            with np.errstate(all='ignore'):
                apply_letter(W, ('solve', i))
            W.check_visible('final-solve')
    except Fail as f:
        return f, W, done
    return None, W, done


def refreshed_before_failure(done):
    """second half of the known finding's discriminating condition: the stale variable was used as it was left when a sibling
    cleared the shared dirty flags. If, after the last boundary-condition edit, the failing variable itself was refreshed through
    a documented route (apply_BCs(), an assignment to .value, update_value()) and still solves with stale data, that is NOT the
    recorded mechanism (on the unchanged tree such a refresh always rebuilds the cached boundary term) - a new violation."""
    if not done or done[-1][0] not in ('solve', 'explicit', 'explicit-keep'):
        return False
    v = done[-1][1]
    last_edit = -1
    for t, L in enumerate(done[:-1]):
        if L[0] in ('bc', 'util', 'periodic'):
            last_edit = t
    refreshed = False
    for L in done[last_edit + 1:-1]:
        if L[0] in ('copy', 'arith', 'share', 'explicit-keep') and (L[-1] if L[0] != 'share' else L[2]) == v:
            refreshed = False            # slot v now holds another variable
        elif L[0] == 'explicit' and L[1] == v:
            refreshed = False            # replaced by the explicit result (which shares the BC object)
        elif L[0] in ('apply', 'value', 'update_value') and L[1] == v:
            refreshed = True
    return refreshed


def run_case(case):
    rng = gen.rng_for(*case['seed'])
    cls = case['cls']
    nd = NDIM[cls]
    if case['kind'] == 'exhaustive':
        n = [3, 2, 2][:nd]
        faces = []
        for k in range(nd):
            kind = AXKIND[cls][k]
            base = {'len': (0.0, 1.0), 'rad': (0.5, 2.0), 'ang': (0.0, 2 * np.pi), 'pol': (0.4, 2.4)}[kind]
            faces.append(np.linspace(base[0], base[1], n[k] + 1))
    else:
        faces, meta = gen.gen_grid(rng, cls, nmin=2, nmax=4 if nd < 3 else 3, family=str(rng.choice(['uniform', 'symmetric', 'random'])))
    g = Geom(cls, faces)
    D, _ = gen.face_arrays(rng, g, 'random', positive=True)
    D = [np.clip(a, 0.05, 5.0) for a in D]
    u, _ = gen.face_arrays(rng, g, 'sign')
    u = [0.2 * np.sign(a) for a in u]
    hmin = min(float(np.min(g.w[k] * np.min(g.hscale(k)))) for k in range(g.nd))
    coef = {'D': D, 'u': u, 'dt': 0.3, 'alpha': 1.0, 'gamma': np.round(rng.normal(0, 1, g.dims), 3), 'dte': 0.02 * hmin ** 2 / 5.0,
            'init': np.round(rng.normal(0, 1, g.dims), 3)}
    if case['kind'] == 'exhaustive':
        A = reduced_alphabet(g, cls)
        letters = [A[j] for j in case['letters']]
    elif case['kind'] == 'directed':
        letters = [tuple(L) for L in case['letters']]
    else:
        W0 = World(cls, faces, coef)
        W0.nrec = 1
        W0.recs[1] = new_record(g)
        W0.add_var(coef['init'], 1, pf.CellVariable(W0.m, coef['init'].copy()))
        letters = []
        nlive = 1
        for _ in range(int(rng.integers(5, 26))):
            # generate against a shadow count of live variables
            W0.real = [None] * nlive
            L = random_letter(rng, W0)
            if not valid(L, nlive):
                continue
            letters.append(L)
            if L[0] in ('copy', 'arith', 'share', 'explicit-keep'):
                slot = L[-1] if L[0] != 'share' else L[2]
                if slot >= nlive:
                    nlive += 1
    if case.get('kunit') and '-int' not in case.get('init_form', 'interior'):
        # the whole history in nano (or mega) field units: every number with the dimension of the field is rescaled
        Ku = float(10 ** (rng.uniform(-12, -8) if rng.random() < 0.7 else rng.uniform(6, 9)))
        coef['init'] = coef['init'] * Ku
        coef['gamma'] = coef['gamma'] * Ku
        letters = [scale_letter(L, Ku) for L in letters]
    init_form = case.get('init_form', 'interior')
    if '-int' in init_form:
        coef['init'] = np.round(coef['init'] * 3.0)          # whole numbers, so that the integer-typed forms hold the same values
    fail, W, done = run_history(cls, faces, coef, letters, init_form=init_form)
    names = [abstract(L) for L in done]
    cov = {'init_form:' + init_form: 1, 'field_unit:%s' % ('scaled' if (case.get('kunit') and '-int' not in case.get('init_form', 'interior')) else '1'): 1, 'histories:%s' % case['kind']: 1, 'letters': len(done), 'visible_state_checks': W.events, 'solve_comparisons': W.solves, 'cls:' + cls: 1}
    for nme in set(names):
        cov['letter:' + nme.split('.')[0]] = 1
    key = '%s/%s/%s' % (cls, [len(f) - 1 for f in faces], '>'.join(names))
    sample = {'cls': cls, 'n': [len(f) - 1 for f in faces], 'history': names}
    nontrivial = any(n_ in ('solve', 'explicit') for n_ in names) and len(names) > len(W.real)
    if fail is None:
        return {'verdict': 'held', 'key': key, 'cov': cov, 'nontrivial': nontrivial, 'sample': sample}
    if fail.mech == '__inconclusive__':
        return {'verdict': 'inconclusive', 'key': key, 'msg': fail.msg, 'cov': cov, 'nontrivial': False}
    mech = fail.mech
    if any(L[0] in ('share', 'explicit-keep') for L in done):
        # discriminating condition of the known finding: same history with sharing replaced by deep-copy-and-mirror passes
        fail2, W2, _ = run_history(cls, faces, coef, letters, mirror=True, init_form=init_form)
        if fail2 is None and not refreshed_before_failure(done):
            mech = KEY_SHARED
    return {'verdict': 'violated', 'mech': mech, 'key': key, 'cov': cov, 'nontrivial': True,
            'msg': ('history %s: ' % '>'.join(names)) + fail.msg[:500],
            'witness': {'cls': cls, 'faces': [to_list(f) for f in faces], 'history': [repr(L) for L in done], 'case': case}, 'sample': sample}


def plan(tier, seed):
    chunks = []
    # bounded-exhaustive on Grid1D(3)
    depth = 3 if tier == 'quick' else 4
    g1 = Geom('Grid1D', [np.linspace(0, 1, 4)])
    nA = len(reduced_alphabet(g1, 'Grid1D'))
    cases = []
    for d in range(1, depth + 1):
        for combo in itertools.product(range(nA), repeat=d):
            cases.append({'kind': 'exhaustive', 'cls': 'Grid1D', 'letters': list(combo), 'seed': [seed, 9, 0]})
    for ci, cls in enumerate(CLASSES):
        if cls == 'Grid1D':
            continue
        gk = Geom(cls, [np.linspace(0.5, 1.5, 3)] * NDIM[cls])
        nAk = len(reduced_alphabet(gk, cls))
        for combo in itertools.product(range(nAk), repeat=2):
            cases.append({'kind': 'exhaustive', 'cls': cls, 'letters': list(combo), 'seed': [seed, 9, ci]})
        for j in range(nAk):
            cases.append({'kind': 'exhaustive', 'cls': cls, 'letters': [j], 'seed': [seed, 9, ci]})
    step = 150
    for j in range(0, len(cases), step):
        chunks.append(cases[j:j + step])
    # directed histories on every class: a view of a coefficient array kept by the caller and written through before each of several
    # solves / refreshes (also on a copy, also next to whole-array assignments)
    dc = []
    for ci, cls in enumerate(CLASSES):
        s0 = SIDES[NDIM[cls] - 1][1]
        kv = lambda i_, v_: ['bc', i_, s0, 'c', 'keptview', v_]
        for seq in ([kv(0, 0.7), ['solve', 0], kv(0, -0.4), ['solve', 0], kv(0, 1.1)],
                    [kv(0, 0.7), ['apply', 0], kv(0, -0.4), ['explicit', 0], kv(0, 0.2)],
                    [['copy', 0, 1], kv(1, 0.7), ['solve', 1], kv(1, -0.4), kv(0, 0.9), ['solve', 0], kv(0, 0.3)],
                    [kv(0, 0.7), ['solve', 0], ['bc', 0, s0, 'c', 'assign', 0.5], ['solve', 0], kv(0, -0.4)]):
            dc.append({'kind': 'directed', 'cls': cls, 'letters': seq, 'seed': [seed, 9, 50 + ci]})
    chunks.append(dc)
    per = 60 if tier == 'quick' else 1500
    for ci, cls in enumerate(CLASSES):
        rc = [{'kind': 'random', 'cls': cls, 'seed': [seed, 9, 100 + ci, i],
               'init_form': ['interior', 'with-ghosts', 'interior-periodic', 'with-ghosts-int', 'interior-int', 'interior-int-periodic'][i % 6], 'kunit': i % 3 == 2} for i in range(per)]
        st = 25 if NDIM[cls] < 3 else 13
        for j in range(0, len(rc), st):
            chunks.append(rc[j:j + st])
    return chunks


def floors(agg, tier):
    out = []
    for cls in CLASSES:
        if agg['cov'].get('cls:' + cls, 0) < 50:
            out.append('cls:%s < 50' % cls)
    for k, need in (('histories:exhaustive', 3000), ('histories:random', 200), ('solve_comparisons', 5000), ('visible_state_checks', 10000)):
        if agg['cov'].get(k, 0) < need:
            out.append('%s < %d' % (k, need))
    if agg['cov'].get('field_unit:scaled', 0) < 40:
        out.append('field_unit:scaled < 40')
    for fm in ('interior', 'with-ghosts', 'with-ghosts-int', 'interior-int', 'interior-int-periodic', 'interior-periodic'):
        if agg['cov'].get('init_form:' + fm, 0) < 20:
            out.append('init_form:%s < 20' % fm)
    for nm in ('bc', 'fixedValue', 'fixedGradient', 'newtonCooling', 'defaultNoFlux', 'periodic', 'value', 'update_value', 'copy', 'arith', 'share', 'apply', 'solve', 'explicit', 'explicit-keep'):
        if agg['cov'].get('letter:' + nm, 0) < 5:
            out.append('letter:%s < 5' % nm)
    return out
