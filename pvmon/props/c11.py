"""C11 - cell-to-face means are true means of the two adjacent cells in any dimension.

Post-conditions on linearMean / arithmeticMean / geometricMean / harmonicMean / upwindMean, face by face,
from the two adjacent entries of the full (ghost-inclusive) cell array along that axis."""
import math

import numpy as np

import pyfvtool as pf

from ..oracles import CLASSES, NDIM, Geom, _bc
from .. import gen
from ..common import nerr, to_list

ID = 'C11'
RULE = ('cases = (grid class, N, spacing family, field family in {positive, positive-with-exact-zeros, arbitrary sign, '
        'linear in one coordinate, constant, small integers}, velocity sign pattern incl. zeros); every face of every axis is '
        'checked; non-trivial = field not constant or grid non-uniform; distinct by (class, N, families, field family)')
ASSUMPTIONS = ['width weights: own-width for arithmetic/geometric/harmonic, cross weights for linearMean; ghost widths = end-cell widths']

EPS = np.finfo(float).eps


def means_checks(m, g, full, family, u_arrs, cov):
    bad = []
    phi = pf.CellVariable(m, full.copy())
    nd = g.nd
    positive = family in ('positive', 'poszeros', 'posconst', 'posscaled')
    with np.errstate(all='ignore'):
        res = {'linear': pf.linearMean(phi), 'arith': pf.arithmeticMean(phi)}
        if positive:
            res['geo'] = pf.geometricMean(phi)
            res['harm'] = pf.harmonicMean(phi)
        uf = gen.facevar(pf, m, u_arrs)
        res['upwind'] = pf.upwindMean(phi, uf)
    if not np.array_equal(phi._value, full):
        bad.append(('input-modified', 'a mean function modified its input field'))
    oracle = {'linear': g.lin, 'arith': g.arith, 'geo': g.geo, 'harm': g.harm}
    maxerr = {}
    for k in range(nd):
        lo, hi = g.pair_along(full, k)
        mn, mx = np.minimum(lo, hi), np.maximum(lo, hi)
        scale = np.abs(lo) + np.abs(hi)
        vals = {}
        for name, fv in res.items():
            a = gen.facevar_arrays(fv, nd)[k]
            a = np.asarray(a, dtype=float)
            cov['faces_checked:' + name] = cov.get('faces_checked:' + name, 0) + int(a.size)
            if a.shape != g.face_shape(k):
                bad.append((name + '/shape', '%s axis %d: shape %r, expected %r' % (name, k, a.shape, g.face_shape(k))))
                continue
            vals[name] = a
            if name == 'upwind':
                ex = g.upwind(full, k, u_arrs[k])
            else:
                ex = oracle[name](full, k)
            if not np.all(np.isfinite(a)):
                i = np.unravel_index(int(np.argmax(~np.isfinite(a))), a.shape)
                bad.append((name + '/nonfinite', '%s axis %d face %r = %r from neighbours (%r, %r)' % (name, k, tuple(map(int, i)), a[i], lo[i], hi[i])))
                continue
            e = nerr(a, ex, scale)
            maxerr[name] = max(maxerr.get(name, 0.0), e)
            if e > 1e-12:
                d = np.abs(a - ex) / np.where(scale > 0, scale, 1)
                i = np.unravel_index(int(np.argmax(d)), a.shape)
                bad.append((name + '/formula', '%s axis %d face %r = %.17g, oracle %.17g (neighbours %.17g, %.17g)' % (
                    name, k, tuple(map(int, i)), a[i], ex[i], lo[i], hi[i])))
            if positive and name != 'upwind':
                with np.errstate(all='ignore'):
                    lg = np.where(mx > 0, np.abs(np.log(np.where(mx > 0, mx, 1.0))), 0.0) + np.where(mn > 0, np.abs(np.log(np.where(mn > 0, mn, 1.0))), 0.0)
                slack = (8 + 4 * lg) * EPS * mx          # exp(log(.)) round trip loses ~|log c| ulp
                if np.any(a < mn - slack) or np.any(a > mx + slack):
                    bad.append((name + '/bounds', '%s axis %d: a face value lies outside [min,max] of its two neighbours' % (name, k)))
            if name == 'upwind':
                # donor value must be one of: lo, hi, boundary average
                pass
        if positive and all(n in vals for n in ('harm', 'geo', 'arith')):
            with np.errstate(all='ignore'):
                lg2 = np.where(mx > 0, np.abs(np.log(np.where(mx > 0, mx, 1.0))), 0.0) + np.where(mn > 0, np.abs(np.log(np.where(mn > 0, mn, 1.0))), 0.0)
            sl = (16 + 4 * lg2) * EPS * mx
            if np.any(vals['harm'] > vals['geo'] + sl) or np.any(vals['geo'] > vals['arith'] + sl):
                bad.append(('ordering', 'axis %d: harmonic <= geometric <= arithmetic violated' % k))
            cov['ordering_checked'] = cov.get('ordering_checked', 0) + int(vals['arith'].size)
    return bad, maxerr


def run_case(case):
    rng = gen.rng_for(*case['seed'])
    cls = case['cls']
    cov = {}
    gfam, gopts = gen.geo_opts(rng, case.get('geo'))
    faces, meta = gen.gen_grid(rng, cls, nmin=1 if not case.get('geo') else 2, nmax=case.get('nmax', 5), family=gfam, opts=gopts)
    if case.get('geo'):
        cov['geo:' + case['geo']] = 1
    g = Geom(cls, faces)
    m = gen.build_mesh(pf, cls, faces)
    fam = case['field']
    sh = g.full_shape()
    extra = {}
    if fam == 'positive':
        full = np.exp(rng.normal(0, 2.0, sh))
    elif fam == 'posscaled':
        # physically small / large magnitudes (a diffusivity of 1e-9 m2/s): the means are homogeneous of degree one
        full = np.exp(rng.normal(0, 1.0, sh)) * 10.0 ** float(rng.choice([-12, -9, -6, 6, 9]))
    elif fam == 'poszeros':
        full = np.exp(rng.normal(0, 1.0, sh))
        full[rng.random(sh) < 0.35] = 0.0
    elif fam == 'posconst':
        full = np.full(sh, float(np.exp(rng.normal(0, 3))))
    elif fam == 'arbitrary':
        full = rng.normal(0, 1, sh) * 10 ** rng.uniform(-3, 3)
    elif fam == 'smallint':
        full = rng.integers(-2, 3, sh).astype(float)
    elif fam == 'linear':
        k = int(rng.integers(0, g.nd))
        a0, a1 = rng.normal(), rng.normal()
        cen = np.concatenate([[g.faces[k][0] - g.w[k][0] / 2], g.c[k], [g.faces[k][-1] + g.w[k][-1] / 2]])
        full = np.broadcast_to(_bc(a0 + a1 * cen, k, g.nd), sh).copy()
        extra = {'axis': k, 'a0': a0, 'a1': a1}
    else:
        raise KeyError(fam)
    u_arrs, ufam = gen.face_arrays(rng, g, 'sign')
    bad, maxerr = means_checks(m, g, full, fam, u_arrs, cov)
    cov['cases:' + cls] = 1
    if fam == 'linear':
        k = extra['axis']
        a = gen.facevar_arrays(pf.linearMean(pf.CellVariable(m, full.copy())), g.nd)[k]
        ex = np.broadcast_to(_bc(extra['a0'] + extra['a1'] * g.faces[k], k, g.nd), g.face_shape(k))
        sc = abs(extra['a0']) + abs(extra['a1']) * max(abs(g.faces[k][0] - g.w[k][0]), abs(g.faces[k][-1] + g.w[k][-1]))
        if nerr(a, ex, sc) > 1e-12:
            bad.append(('linear/exactness', 'linearMean of a linear field is not the field at the face positions (axis %d)' % k))
        cov['linear_exactness'] = 1
    if fam == 'posconst':
        for name in ('linearMean', 'arithmeticMean', 'geometricMean', 'harmonicMean'):
            fv = getattr(pf, name)(pf.CellVariable(m, full.copy()))
            for k in range(g.nd):
                a = gen.facevar_arrays(fv, g.nd)[k]
                if np.any(np.abs(a - full.flat[0]) > (8 + 4 * abs(math.log(full.flat[0]))) * EPS * abs(full.flat[0])):
                    bad.append((name + '/constant', '%s does not reproduce the constant %r on axis %d' % (name, full.flat[0], k)))
        cov['constant_reproduction'] = 1
    # two results alive at the same time (k_face and D_face of one model): the first is not touched by the second evaluation
    if fam in ('positive', 'arbitrary', 'poszeros'):
        uvar = gen.facevar(pf, m, u_arrs)
        flist = [('linearMean', pf.linearMean), ('arithmeticMean', pf.arithmeticMean), ('upwindMean', lambda p_: pf.upwindMean(p_, uvar))]
        if fam != 'arbitrary':
            flist += [('geometricMean', pf.geometricMean), ('harmonicMean', pf.harmonicMean)]
        other = np.abs(full[::-1].copy() if g.nd == 1 else full.copy()) * 1.7 + 0.3
        for name, f in flist:
            with np.errstate(all='ignore'):
                r1 = f(pf.CellVariable(m, full.copy()))
                keep = [np.array(x_, copy=True) for x_ in gen.facevar_arrays(r1, g.nd)]
                r2 = f(pf.CellVariable(m, other.copy()))
                r3 = f(pf.CellVariable(m, full.copy()))         # the first field once more, after the other one
            for k in range(g.nd):
                a1, a2 = gen.facevar_arrays(r1, g.nd)[k], gen.facevar_arrays(r2, g.nd)[k]
                if not np.array_equal(np.asarray(a1), keep[k], equal_nan=True) or (np.size(a1) and np.shares_memory(a1, a2)):
                    bad.append((name + '/result-overwritten', '%s: the face values returned for one field changed (or share storage) when %s was evaluated for another field on the same grid (axis %d)' % (name, name, k)))
                if not np.array_equal(np.asarray(gen.facevar_arrays(r3, g.nd)[k]), keep[k], equal_nan=True):
                    bad.append((name + '/depends-on-earlier-call', '%s of a field differs from what it was before %s was evaluated for another field on the same grid (axis %d): the face values depend on more than the two adjacent cells' % (name, name, k)))
            cov['results_alive_probes'] = cov.get('results_alive_probes', 0) + 1
        # the velocity object of the upwind mean is refreshed IN PLACE between two evaluations (u.xvalue[...] = ..., u.xvalue *= -1:
        # flow reversal, a new iterate of a velocity field): the donor cells are those of the velocity as it is now
        with np.errstate(all='ignore'):
            uv_ = gen.facevar(pf, m, [np.array(a_, dtype=float, copy=True) for a_ in u_arrs])
            ph_ = pf.CellVariable(m, full.copy())
            pf.upwindMean(ph_, uv_)
            howu = str(rng.choice(['imul', 'slice', 'flip-some']))
            newu = []
            for a_ in gen.facevar_arrays(uv_, g.nd):
                if howu == 'imul':
                    a_ *= -1.0
                elif howu == 'slice':
                    a_[...] = -np.asarray(a_) + 0.0
                else:
                    flip = rng.random(a_.shape) < 0.5
                    a_[flip] = -a_[flip]
                newu.append(np.array(a_, copy=True))
            got = gen.facevar_arrays(pf.upwindMean(ph_, uv_), g.nd)
            ref = gen.facevar_arrays(pf.upwindMean(pf.CellVariable(m, full.copy()), gen.facevar(pf, m, newu)), g.nd)
        for k in range(g.nd):
            if not np.array_equal(np.asarray(got[k]), np.asarray(ref[k]), equal_nan=True):
                bad.append(('upwindMean/stale-velocity', 'upwindMean after the velocity object was edited in place (%s) is not the donor-cell value for the velocity it holds now (axis %d)' % (howu, k)))
        cov['upwind_velocity_edited_in_place:' + howu] = cov.get('upwind_velocity_edited_in_place:' + howu, 0) + 1
        # one variable, evaluated, given a new field, evaluated again (a coefficient k(phi) re-averaged in every sweep of a loop):
        # the second result is the mean of the field the variable holds now, i.e. bit for bit what a fresh variable holding the
        # same numbers gives - whichever supported way the new field came in
        inner = tuple(slice(1, -1) for _ in range(g.nd))
        for name, f in flist:
            how = str(rng.choice(['update_value', 'setter', 'slice', 'kept-view', 'update_value-twice']))
            with np.errstate(all='ignore'):
                phi = pf.CellVariable(m, full.copy())
                f(phi)
                now = other.copy()
                if how.startswith('update_value'):
                    phi.update_value(pf.CellVariable(m, other.copy()))
                    if how.endswith('twice'):
                        f(phi)
                        now = other * 0.25 + 2.0
                        phi.update_value(pf.CellVariable(m, now.copy()))
                else:
                    now = full.copy()
                    now[inner] = other[inner]
                    if how == 'setter':
                        phi.value = other[inner]
                    elif how == 'slice':
                        phi.value[...] = other[inner]
                    else:
                        v_ = phi.value
                        f(phi)
                        v_[...] = other[inner]
                got = gen.facevar_arrays(f(phi), g.nd)
                ref = gen.facevar_arrays(f(pf.CellVariable(m, now.copy())), g.nd)
            for k in range(g.nd):
                if not np.array_equal(np.asarray(got[k]), np.asarray(ref[k]), equal_nan=True):
                    bad.append((name + '/stale-after-new-field', '%s of a variable that was averaged before and then received a new field (%s) is not the mean of the field it holds now (axis %d)' % (name, how, k)))
            cov['reaveraged_after_edit:' + how] = cov.get('reaveraged_after_edit:' + how, 0) + 1
    # locality by basis perturbation (a few random cells)
    if case.get('locality', True):
        phi = pf.CellVariable(m, full.copy())
        funcs = [pf.linearMean, pf.arithmeticMean, lambda p: pf.upwindMean(p, gen.facevar(pf, m, u_arrs))]
        if fam in ('positive',):
            funcs += [pf.geometricMean, pf.harmonicMean]
        base = [[np.array(x, copy=True) for x in gen.facevar_arrays(f(phi), g.nd)] for f in funcs]
        for rep in range(3):
            idx = tuple(int(rng.integers(0, s)) for s in sh)
            full2 = full.copy()
            full2[idx] = full2[idx] * 1.5 + 1.0
            phi2 = pf.CellVariable(m, full2)
            for fi, f in enumerate(funcs):
                new = gen.facevar_arrays(f(phi2), g.nd)
                for k in range(g.nd):
                    changed = np.argwhere(new[k] != base[fi][k])
                    for c in changed:
                        # face c (axis k) is adjacent to cells idx_k in {c_k, c_k+1} (full numbering) with other idx == c+1
                        ok = all((idx[j] == c[j] + 1) for j in range(g.nd) if j != k) and idx[k] in (c[k], c[k] + 1)
                        if not ok:
                            bad.append(('locality', 'perturbing cell %r changed face %r of axis %d (function #%d)' % (idx, tuple(map(int, c)), k, fi)))
            cov['locality_probes'] = cov.get('locality_probes', 0) + len(funcs)
    key = '%s/%s/%s/%s' % (cls, meta['n'], meta['family'], fam)
    sample = {'grid': gen.describe_grid(meta, faces), 'field': fam, 'field_head': to_list(full.ravel()[:8])}
    if bad:
        bad = sorted(set(bad))
        mech = bad[0][0] + ('/' + ('1D' if g.nd == 1 else 'nD'))
        return {'verdict': 'violated', 'mech': mech, 'key': key, 'cov': cov, 'maxerr': maxerr, 'nontrivial': True,
                'msg': '; '.join(b[1] for b in bad)[:600],
                'witness': {'cls': cls, 'faces': [to_list(f) for f in faces], 'field': to_list(full), 'u': [to_list(a) for a in u_arrs]},
                'sample': sample}
    return {'verdict': 'held', 'key': key, 'cov': cov, 'maxerr': maxerr, 'nontrivial': fam != 'posconst' or True, 'sample': sample}


def run_embed(case):
    """dimension agreement: a 1-D field embedded along an axis of a 2-D/3-D grid gives the same face
    values as the 1-D routine"""
    rng = gen.rng_for(*case['seed'])
    cls = case['cls']
    faces, meta = gen.gen_grid(rng, cls, nmin=1, nmax=4)
    g = Geom(cls, faces)
    m = gen.build_mesh(pf, cls, faces)
    k = int(rng.integers(0, g.nd))
    fam = str(rng.choice(['positive', 'poszeros', 'posscaled']))
    line = np.exp(rng.normal(0, 1, g.N[k] + 2))
    if fam == 'posscaled':
        line = line * 10.0 ** float(rng.choice([-12, -9, 6]))
    if fam == 'poszeros':
        line[rng.random(line.shape) < 0.4] = 0.0
    full = np.broadcast_to(_bc(line, k, g.nd), g.full_shape()).copy()
    m1 = pf.Grid1D(np.array(faces[k]))
    uline = rng.integers(-1, 2, g.N[k] + 1).astype(float)
    u_arrs = [np.zeros(g.face_shape(j)) for j in range(g.nd)]
    u_arrs[k] = np.broadcast_to(_bc(uline, k, g.nd), g.face_shape(k)).copy()
    bad = []
    cov = {'embed:' + cls: 1}
    with np.errstate(all='ignore'):
        for name in ('linearMean', 'arithmeticMean', 'geometricMean', 'harmonicMean', 'upwindMean'):
            if name == 'upwindMean':
                a1 = pf.upwindMean(pf.CellVariable(m1, line.copy()), gen.facevar(pf, m1, [uline]))._xvalue
                an = gen.facevar_arrays(pf.upwindMean(pf.CellVariable(m, full.copy()), gen.facevar(pf, m, u_arrs)), g.nd)[k]
            else:
                a1 = getattr(pf, name)(pf.CellVariable(m1, line.copy()))._xvalue
                an = gen.facevar_arrays(getattr(pf, name)(pf.CellVariable(m, full.copy())), g.nd)[k]
            ex = np.broadcast_to(_bc(a1, k, g.nd), g.face_shape(k))
            same = (np.abs(an - ex) <= 1e-13 * (np.abs(ex) + 1e-300)) | ((an == ex))
            if not np.all(same):
                i = np.unravel_index(int(np.argmax(~same)), same.shape)
                bad.append((name + '/dimension-agreement', '%s: %s axis %d face %r = %r but the 1-D routine gives %r' % (
                    name, cls, k, tuple(map(int, i)), an[i], ex[i])))
    key = 'embed/%s/%s/%d/%s' % (cls, meta['n'], k, fam)
    sample = {'kind': 'embed', 'grid': gen.describe_grid(meta, faces), 'axis': k, 'line': to_list(line)}
    if bad:
        return {'verdict': 'violated', 'mech': bad[0][0], 'key': key, 'cov': cov, 'nontrivial': True,
                'msg': '; '.join(b[1] for b in bad)[:600],
                'witness': {'cls': cls, 'faces': [to_list(f) for f in faces], 'axis': k, 'line': to_list(line)}, 'sample': sample}
    return {'verdict': 'held', 'key': key, 'cov': cov, 'nontrivial': True, 'sample': sample}


_run_means = run_case


def run_case(case):  # noqa: F811  (dispatcher)
    if case.get('kind') == 'embed':
        return run_embed(case)
    return _run_means(case)


FIELDS = ['positive', 'poszeros', 'posconst', 'posscaled', 'arbitrary', 'smallint', 'linear']


def plan(tier, seed):
    per = 12 if tier == 'quick' else 400
    chunks = []
    for ci, cls in enumerate(CLASSES):
        cases = []
        for fi, fam in enumerate(FIELDS):
            for i in range(per):
                cases.append({'cls': cls, 'field': fam, 'seed': [seed, 11, ci, fi, i], 'nmax': 5 if NDIM[cls] < 3 else 4})
            for i in range(max(7, per // 2)):      # tiny / huge length units, almost-uniform spacing, integer-typed, far-off, negative, wildly graded grids
                cases.append({'cls': cls, 'field': fam, 'seed': [seed, 11, ci, fi, 10000 + i], 'nmax': 5 if NDIM[cls] < 3 else 4, 'geo': ['nano', 'jitter', 'mega', 'int', 'offset', 'negative', 'wild'][i % 7]})
        if NDIM[cls] > 1:
            for i in range(per * 2):
                cases.append({'kind': 'embed', 'cls': cls, 'seed': [seed, 11, ci, 99, i]})
        step = 60
        for j in range(0, len(cases), step):
            chunks.append(cases[j:j + step])
    return chunks


def floors(agg, tier):
    out = []
    need = 50 if tier == 'quick' else 1500
    for cls in CLASSES:
        if agg['cov'].get('cases:' + cls, 0) < need:
            out.append('cases:%s < %d' % (cls, need))
        if NDIM[cls] > 1 and agg['cov'].get('embed:' + cls, 0) < 10:
            out.append('embed:%s < 10' % cls)
    for geo in ('nano', 'jitter', 'mega', 'int', 'offset', 'negative', 'wild'):
        if agg['cov'].get('geo:' + geo, 0) < 40:
            out.append('geo:%s < 50' % geo)
    if agg['cov'].get('results_alive_probes', 0) < 500:
        out.append('results_alive_probes < 500')
    for name in ('linear', 'arith', 'geo', 'harm', 'upwind'):
        if agg['cov'].get('faces_checked:' + name, 0) < 1000:
            out.append('faces_checked:%s < 1000' % name)
    return out
