"""C02 - solutions converge to the exact solution of the documented PDE on every grid.

Bounded restatement of a limit statement: on three successive refinements (n, 2n, 4n) the observed order and the error
reduction must be compatible with the scheme's order.  Oracle: method of manufactured solutions with the continuous
operator evaluated from the coordinate system's scale factors only (no code shared with pyfvtool)."""
import math

import numpy as np

import pyfvtool as pf

from ..oracles import CLASSES, NDIM, SIDES, AXKIND, Geom, _bc
from .. import gen
from ..common import to_list

ID = 'C02'
RULE = ('cases = (grid class, spacing in {uniform, smoothly graded}, BC kind per side in {Dirichlet, Neumann, Robin}, term set in '
        '{diffusion, +central, +upwind, +linear source, +transient(dt~h^2 or dt~h)}, manufactured solution = product of 1+a*sin(w q+d) '
        'in every coordinate with variable D(q)>0, u(q), beta(q)); each case = three solves at n, 2n, 4n; non-trivial = coarse error '
        '> 1e-9; distinct by (class, spacing, BC vector, term set, time mode)')
ASSUMPTIONS = ['orders are measured in the L-infinity norm and the V-weighted L2 norm against the exact solution at cell centres',
               'thresholds: second-order sets need fine-pair order >= 1.4 and e(4n) <= e(n)/5; upwind sets are tested against the MODIFIED equation '
               '(oracle diffusivity D + |u_k| delta_k h_k/2, Dirichlet data on inflow sides) and need L2 order >= 1.35, L_inf order >= 0.9, L2 reduction >= 4; '
               'dt~h sets need an overall L2 reduction >= 1.5 and no growth on the fine pair',
               'outer derivative of the analytic flux density by 4th-order central differences (step 1e-4 of the axis extent)']


def hfun(cls, k, q):
    """scale factor h_k at points q (list of broadcastable arrays)"""
    if k == 0:
        return 1.0
    if cls in ('PolarGrid2D', 'CylindricalGrid3D') and k == 1:
        return q[0]
    if cls == 'SphericalGrid3D':
        return q[0] if k == 1 else q[0] * np.sin(q[1])
    return 1.0


def jac(cls, q):
    if cls in ('CylindricalGrid1D', 'CylindricalGrid2D', 'PolarGrid2D', 'CylindricalGrid3D'):
        return q[0]
    if cls == 'SphericalGrid1D':
        return q[0] ** 2
    if cls == 'SphericalGrid3D':
        return q[0] ** 2 * np.sin(q[1])
    return 1.0


class MMS:
    def __init__(self, rng, cls, ext):
        nd = NDIM[cls]
        self.cls, self.nd, self.ext = cls, nd, ext
        L = [e[1] - e[0] for e in ext]
        self.w = [float(rng.uniform(1.0, 2.5)) * math.pi / L[k] for k in range(nd)]
        self.d = [float(rng.uniform(0, 2 * math.pi)) for _ in range(nd)]
        self.a = [float(rng.uniform(0.3, 0.6)) for _ in range(nd)]
        self.Dc = [float(rng.uniform(0.1, 0.4)) for _ in range(nd)]
        self.Dw = [float(rng.uniform(0.5, 1.5)) * math.pi / L[k] for k in range(nd)]
        self.D0 = float(rng.uniform(0.5, 2.0))
        self.U = [float(rng.choice([-1, 1]) * rng.uniform(0.5, 2.0)) for _ in range(nd)]
        self.Uw = [float(rng.uniform(0.5, 1.5)) * math.pi / L[k] for k in range(nd)]
        self.b0 = float(rng.uniform(0.2, 1.5))
        self.tw = float(rng.uniform(0.5, 1.5))
        self.frozen = set()         # axes along which nothing varies (strip problems: one cell across)

    def freeze(self, k):
        """no dependence on coordinate k: solution, D, u, beta (the velocity component u_k itself stays, uniform along k)"""
        self.frozen.add(k)
        self.a[k] = 0.0
        self.Dc[k] = 0.0

    def make_periodic(self, k):
        """everything periodic along coordinate k with the period of the axis extent"""
        L = self.ext[k][1] - self.ext[k][0]
        self.w[k] = 2 * math.pi * float(max(1, round(self.w[k] * L / (2 * math.pi)))) / L
        self.Dw[k] = 2 * math.pi / L
        self.Uw[k] = 2 * math.pi / L

    def f(self, k, s):
        return 1 + self.a[k] * np.sin(self.w[k] * s + self.d[k])

    def df(self, k, s):
        return self.a[k] * self.w[k] * np.cos(self.w[k] * s + self.d[k])

    def psi(self, q):
        out = 1.0
        for k in range(self.nd):
            out = out * self.f(k, q[k])
        return out

    def dpsi(self, k, q):
        out = self.df(k, q[k])
        for j in range(self.nd):
            if j != k:
                out = out * self.f(j, q[j])
        return out

    def g(self, t):
        return 1 + 0.5 * math.sin(self.tw * t)

    def dg(self, t):
        return 0.5 * self.tw * math.cos(self.tw * t)

    def D(self, q):
        out = self.D0
        for k in range(self.nd):
            out = out * (1 + self.Dc[k] * np.cos(self.Dw[k] * q[k]))
        return out

    def u(self, k, q):
        out = self.U[k]
        for j in range(self.nd):
            if j in self.frozen:
                continue
            out = out * (1 + 0.3 * np.sin(self.Uw[j] * q[j] + 0.7 * (k + 1)))
        return out

    def beta(self, q):
        out = self.b0
        for k in range(self.nd):
            if k in self.frozen:
                continue
            out = out * (1 + 0.3 * np.cos(self.Dw[k] * q[k] + 1.0))
        return out

    numdiff = None      # {'n': [...], 'kappa': [...]} for upwind sets: the donor-cell flux is the central flux plus a numerical
                        # diffusion |u_k|*delta_k/2 (delta_k = local centre spacing), so the upwind solution is a SECOND-order
                        # approximation of the modified equation with D_k = D + |u_k| delta_k h_k / 2

    def spacing(self, k, s):
        """coordinate spacing of the (smoothly mapped) grid at coordinate s of axis k"""
        a, b = self.ext[k]
        kp, n = self.numdiff['kappa'][k], self.numdiff['n'][k]
        t = (s - a) / (b - a)
        xi = t
        for _ in range(8):
            xi = xi - (xi + kp * np.sin(math.pi * xi) - t) / (1 + kp * math.pi * np.cos(math.pi * xi))
        return (b - a) * (1 + kp * math.pi * np.cos(math.pi * xi)) / n

    def flux_density(self, k, q, adv):
        """(J/h_k) * (u_k psi - (D_k/h_k) d_k psi)"""
        hk = hfun(self.cls, k, q)
        Dk = self.D(q)
        if adv and self.numdiff is not None:
            Dk = Dk + np.abs(self.u(k, q)) * self.spacing(k, q[k]) * hk / 2.0
        F = -(Dk / hk) * self.dpsi(k, q)
        if adv:
            F = F + self.u(k, q) * self.psi(q)
        return jac(self.cls, q) / hk * F

    def spatial(self, q, adv, src):
        """L psi = (1/J) sum_k d_k[flux density] + beta psi at points q"""
        out = 0.0
        for k in range(self.nd):
            h = 1e-4 * (self.ext[k][1] - self.ext[k][0])

            def at(s):
                qq = list(q)
                qq[k] = q[k] + s
                return self.flux_density(k, qq, adv)
            out = out + (-at(2 * h) + 8 * at(h) - 8 * at(-h) + at(-2 * h)) / (12 * h)
        out = out / jac(self.cls, q)
        if src:
            out = out + self.beta(q) * self.psi(q)
        return out


def domain_for(rng, cls):
    ext = []
    for kind in AXKIND[cls]:
        if kind == 'len':
            x0 = float(rng.uniform(-1, 1))
            ext.append((x0, x0 + float(rng.uniform(0.8, 1.6))))
        elif kind == 'rad':
            r0 = float(rng.uniform(0.4, 1.0))
            ext.append((r0, r0 + float(rng.uniform(0.8, 1.4))))
        elif kind == 'ang':
            t0 = float(rng.uniform(0, 1.0))
            ext.append((t0, t0 + float(rng.uniform(1.0, 2.0))))
        else:
            t0 = float(rng.uniform(0.5, 0.9))
            ext.append((t0, t0 + float(rng.uniform(1.0, 1.6))))
    return ext


def faces_for(ext, n, kappa):
    out = []
    for (a, b), nk, kp in zip(ext, n, kappa):
        xi = np.linspace(0, 1, nk + 1)
        out.append(a + (b - a) * (xi + kp * np.sin(math.pi * xi)))      # smooth and asymmetric: first and last cells differ
    return out


def solve_once(cls, mms, ext, n, kappa, bckinds, tset, tmode, lam, lunit=1.0, order='diff-first', periodic=(), route='plain', refreshed=False):
    """lunit: the same problem expressed in another length unit (faces of length-like axes, D, u, boundary a rescaled by their
    dimension; the oracle stays in the original unit). order: which matrix terms are built first on the shared mesh."""
    faces = faces_for(ext, n, kappa)
    g = Geom(cls, faces)
    m = gen.build_mesh(pf, cls, [f * lunit if AXKIND[cls][k] in ('len', 'rad') else f for k, f in enumerate(faces)])
    nd = g.nd
    adv = 'central' in tset or 'upwind' in tset
    src = 'src' in tset
    qc = [_bc(g.c[k], k, nd) for k in range(nd)]
    BC = pf.BoundaryConditions(m)

    for k in periodic:
        getattr(BC, SIDES[k][int(n[k]) % 2]).periodic = True          # declared by one flag (either one)

    def bc_at(t):
        for k in range(nd):
            if k in periodic:
                continue
            for j, side in enumerate(SIDES[k]):
                q = list(qc)
                q[k] = np.full([1] * nd, g.faces[k][0] if j == 0 else g.faces[k][-1])
                psi = np.broadcast_to(mms.psi(q), [1 if i == k else g.dims[i] for i in range(nd)])
                dn = np.broadcast_to(mms.dpsi(k, q) / hfun(cls, k, q), psi.shape)
                kind, a0, b0 = bckinds[side]
                a = np.full(psi.shape, a0) * (1 + 0.2 * np.cos(3 * psi)) if kind in ('R', 'M') else np.full(psi.shape, a0)
                b = np.full(psi.shape, b0)
                if kind == 'M':
                    # mixed face: fixed value on one part of the face (a = 0, b = 1), Robin on the rest, the Robin part written with
                    # either overall sign (the relation a*dphi/dn + b*phi = c is the same one)
                    sg = -1.0 if (k + j) % 2 == 0 else 1.0
                    a, b = sg * a, sg * b
                    tang = [i for i in range(nd) if i != k]
                    if tang:
                        part = np.zeros(psi.shape, dtype=bool)
                        idx = [slice(None)] * nd
                        idx[tang[0]] = slice(0, max(1, psi.shape[tang[0]] // 2))
                        part[tuple(idx)] = True
                        a = np.where(part, 0.0, a)
                        b = np.where(part, 1.0, b)
                c = (a * dn + b * psi) * mms.g(t)
                sh = g.side_shape(k)
                f = getattr(BC, side)
                f.a, f.b, f.c = (a * lam * lunit).reshape(sh), (b * lam).reshape(sh), (c * lam).reshape(sh)
    qf = []
    Darr, uarr = [], []
    for k in range(nd):
        q = list(qc)
        q[k] = _bc(g.faces[k], k, nd)
        Darr.append(np.broadcast_to(mms.D(q), g.face_shape(k)).copy() * lunit ** 2)
        uarr.append(np.broadcast_to(mms.u(k, q), g.face_shape(k)).copy() * lunit)
    mms.numdiff = {'n': list(n), 'kappa': list(kappa)} if 'upwind' in tset else None
    Lpsi = np.broadcast_to(mms.spatial(qc, adv, src), g.dims)
    psi_c = np.broadcast_to(mms.psi(qc), g.dims)
    terms0 = []
    # refreshed: the coefficient objects were used before with other values and got the values of this problem in place
    mkfv = gen.facevar_refreshed if refreshed else gen.facevar
    for which in (('adv', 'src', 'diff') if order == 'adv-first' else ('diff', 'adv', 'src')):
        if which == 'diff':
            terms0.append(-pf.diffusionTerm(mkfv(pf, m, Darr)))
        elif which == 'adv':
            if 'central' in tset:
                terms0.append(pf.convectionTerm(mkfv(pf, m, uarr)))
            if 'upwind' in tset:
                terms0.append(pf.convectionUpwindTerm(mkfv(pf, m, uarr)))
        elif src:
            terms0.append(pf.linearSourceTerm(pf.CellVariable(m, np.broadcast_to(mms.beta(qc), g.dims).copy())))
    V = g.vol_exact()
    with np.errstate(all='ignore'):
        if tmode == 'steady':
            bc_at(0.0)
            if refreshed:
                # another grid of the same class and shape (all lengths x 1.37) has just been given boundary conditions with the very
                # same coefficient arrays (a parameter study over the domain size): nothing of it may reach this problem
                try:
                    ms_ = gen.build_mesh(pf, cls, [np.asarray(f_, dtype=float) * lunit * 1.37 if AXKIND[cls][k_] in ('len', 'rad') else f_ for k_, f_ in enumerate(faces)], decoy=False)
                    BCs_ = pf.BoundaryConditions(ms_)
                    for k_ in range(nd):
                        for sd_ in SIDES[k_]:
                            fo_, fs_ = getattr(BC, sd_), getattr(BCs_, sd_)
                            fs_.a, fs_.b, fs_.c = np.array(fo_.a, copy=True), np.array(fo_.b, copy=True), np.array(fo_.c, copy=True)
                            fs_.periodic = fo_.periodic
                    pf.boundaryConditionsTerm(BCs_)
                    pf.CellVariable(ms_, 0.0, BCs_)
                except ValueError:
                    pass
            phi = pf.CellVariable(m, 0.0, BC)
            gamma = Lpsi * mms.g(0.0)
            src_vec = pf.constantSourceTerm(pf.CellVariable(m, gamma.copy()))
            if route == 'list-twice':
                # ONE term list, source vector first, a (matrix, vector) pair in it, matrices in any sparse format - solved twice (the
                # second solve is the one that is measured: a list of terms can be used again)
                half = pf.constantSourceTerm(pf.CellVariable(m, 0.5 * gamma))           # the source in two halves: a bare vector ...
                pair = (pf.linearSourceTerm(pf.CellVariable(m, 0.0)), pf.constantSourceTerm(pf.CellVariable(m, 0.5 * gamma)))   # ... and a pair
                tl = gen.vary_terms(gen.rng_for(len(n), int(n[0]), 7), [half] + terms0 + [pair])
                pf.solvePDE(phi, tl)
                phi = pf.CellVariable(m, 0.0, BC)
                pf.solvePDE(phi, tl)
            elif route == 'matrix':
                # the expert route: system assembled by hand and handed to solveMatrixPDE as a CSC / COO / LIL matrix
                import scipy.sparse as sp_
                Mbc, bbc = pf.boundaryConditionsTerm(BC)
                Mt = sp_.csr_array(Mbc)
                for t_ in terms0:
                    Mt = Mt + t_
                fmt_ = ['csc', 'coo', 'lil'][int(n[0]) % 3]
                phi = pf.solveMatrixPDE(m, getattr(sp_.csr_array(Mt), 'to' + fmt_)(), np.asarray(bbc) + src_vec)
            elif route == 'zero-alpha':
                # the steady equation written as the alpha -> 0 member of the documented family alpha*dphi/dt + ... : a storage
                # coefficient of exactly zero (python int / float / numpy scalar / per-cell zeros) contributes nothing
                a0_ = [0, 0.0, np.float64(0.0), pf.CellVariable(m, 0.0)][int(n[0] + len(terms0)) % 4]
                old_ = pf.CellVariable(m, 7.0 + np.cos(np.arange(int(np.prod(g.dims)))).reshape(g.dims), BC)
                pf.solvePDE(phi, [pf.transientTerm(old_, 0.37, a0_)] + terms0 + [src_vec])
            else:
                pf.solvePDE(phi, terms0 + [src_vec])
            exact = psi_c * mms.g(0.0)
        else:
            hh = max(float(np.max(g.w[k])) / (ext[k][1] - ext[k][0]) for k in range(nd))
            Tend = 0.4
            nsteps = max(2, int(round(Tend / (0.5 * hh ** 2 if tmode == 'dt~h2' else 0.4 * hh))))
            nsteps = min(nsteps, 4000)
            dt = Tend / nsteps
            alpha = 1.3
            bc_at(0.0)
            phi = pf.CellVariable(m, (psi_c * mms.g(0.0)).copy(), BC)
            t = 0.0
            for s in range(nsteps):
                t = (s + 1) * dt
                bc_at(t)
                gamma = alpha * psi_c * mms.dg(t) + Lpsi * mms.g(t)
                pf.solvePDE(phi, [pf.transientTerm(phi, dt, alpha)] + terms0 + [pf.constantSourceTerm(pf.CellVariable(m, gamma.copy()))])
            exact = psi_c * mms.g(t)
    err = np.asarray(phi.value) - exact
    if not np.all(np.isfinite(err)):
        return None
    return float(np.max(np.abs(err))), float(np.sqrt((V * err ** 2).sum() / V.sum()))


def run_case(case):
    rng = gen.rng_for(*case['seed'])
    cls = case['cls']
    nd = NDIM[cls]
    ext = domain_for(rng, cls)
    mms = MMS(rng, cls, ext)
    if case['tmode'] == 'dt~h' or nd == 3:
        # first-order sets: gentler manufactured solution, so that the a*h term dominates b*h^2 on the grids used
        mms.w = [0.5 * w for w in mms.w]
    if case.get('usign'):
        mms.U = [abs(u_) * sg for u_, sg in zip(mms.U, case['usign'])]
    if 'upwind' in case['tset'] and case.get('pe') == 'high':
        mms.U = [3.0 * u_ for u_ in mms.U]
    spacing = case['spacing']
    kappa = [float(rng.uniform(0.1, 0.2)) * float(rng.choice([-1, 1])) if spacing == 'graded' else 0.0 for _ in range(nd)]
    n0 = case.get('n0') or {1: 16, 2: 8, 3: 6}[nd]
    tset, tmode = case['tset'], case['tmode']
    lam = float(rng.choice([1.0, -1.0, 2.0]))
    bckinds = {}
    for k in range(nd):
        for j, side in enumerate(SIDES[k]):
            kind = case['bc'][2 * k + j]
            if kind == 'D':
                bckinds[side] = ('D', 0.0, 1.0)
            elif kind == 'N':
                bckinds[side] = ('N', 1.0, 0.0)
            else:
                bckinds[side] = (kind, float(rng.uniform(0.5, 1.5)), float(rng.uniform(0.5, 1.5)) * (-1.0 if j == 0 else 1.0))
    if 'central' in tset or 'upwind' in tset:
        # keep the CONTINUOUS problem well conditioned: on the inflow side of every axis use Dirichlet data or a coercive Robin
        # condition D*dphi/dn + kappa*phi = g with kappa >= |u.n| (a Neumann / weak Robin inflow condition makes the
        # advection-diffusion operator indefinite: errors of O(10) and no convergence on a correct tree); outflow sides keep
        # their drawn kind.  Convection-dominated sets ('pe' = high) use Dirichlet on inflow sides.
        umax = 1.3 ** nd * max(abs(x) for x in mms.U)
        dmin = mms.D0 * np.prod([1 - c_ for c_ in mms.Dc])
        for k in range(nd):
            j = 0 if mms.U[k] > 0 else 1
            inflow = SIDES[k][j]
            kind = bckinds[inflow][0]
            if case.get('pe') == 'high' or kind == 'D' or 'upwind' in tset:
                bckinds[inflow] = ('D', 0.0, 1.0)
            else:
                ratio = 1.5 * umax / dmin + 0.5
                bckinds[inflow] = ('R', 1.0, ratio * (-1.0 if j == 0 else 1.0))
    # a steady problem with only Neumann sides and no sink is singular: guarantee one Dirichlet-like side
    if all(v[0] == 'N' for v in bckinds.values()) and 'src' not in tset and tmode == 'steady':
        bckinds[SIDES[0][1]] = ('D', 0.0, 1.0)
    strip = case.get('strip')          # axis with ONE cell across (the problem does not vary along it; through-flow along it allowed)
    per_axes = tuple(case.get('periodic') or ())
    if strip is not None:
        mms.freeze(strip)
    for k in per_axes:
        if AXKIND[cls][k] == 'ang':
            ext[k] = (0.0, 2 * math.pi)
        mms.ext = ext
        mms.make_periodic(k)
    errs = []
    for mult in (1, 2, 4):
        nn = [n0 * mult] * nd
        if strip is not None:
            nn[strip] = 1
        r = solve_once(cls, mms, ext, nn, kappa, bckinds, tset, tmode, lam, lunit=float(case.get('lunit') or 1.0), order=case.get('order', 'diff-first'), periodic=per_axes, route=case.get('route', 'plain'), refreshed=bool(case.get('refreshed')))
        if r is None:
            return {'verdict': 'inconclusive', 'key': 'singular', 'msg': 'non-finite solution', 'nontrivial': False, 'cov': {}}
        errs.append(r)
    einf = [e[0] for e in errs]
    el2 = [e[1] for e in errs]
    first_order = tmode == 'dt~h'
    # first-order sets: error = a*h + b*h^2 with a, b of either sign, so the order of a single pair is not bounded below by
    # theory (pre-asymptotic cancellation); only the total reduction over two refinements is required there
    need_order, need_red = (None, 2.5) if first_order else (1.4, 5.0)
    bcv = ''.join(case['bc'][:2 * nd])
    key = '%s/%s/%s/%s/%s/%s/%s/%s/%s/%s/%s/%s' % (cls, spacing, bcv, tset, tmode, case.get('usign'), case.get('pe'), case.get('lunit'), case.get('order'), strip, per_axes, case.get('route'))
    cov = {'cases:%s' % cls: 1, 'coefficient_objects:%s' % ('refreshed-in-place+sibling-bcs' if case.get('refreshed') else 'fresh'): 1, 'tset:%s' % tset: 1, 'tmode:%s' % tmode: 1, 'spacing:%s' % spacing: 1, 'solves': 3,
           'order:%s' % case.get('order', 'diff-first'): 1, 'route:%s' % case.get('route', 'plain'): 1, 'strip:%s' % ('yes' if strip is not None else 'no'): 1, 'periodic:%s' % ('yes' if per_axes else 'no'): 1, 'length_unit:%s' % ('1' if not case.get('lunit') else ('small' if case['lunit'] < 1 else 'large')): 1}
    for ch in set(bcv):
        cov['bc:' + ch] = 1
    sample = {'cls': cls, 'spacing': spacing, 'bc': bcv, 'terms': tset, 'time': tmode, 'n': [n0, 2 * n0, 4 * n0], 'err_inf': einf, 'err_l2': el2}
    if einf[0] < 1e-9:
        return {'verdict': 'held', 'key': key, 'cov': cov, 'nontrivial': False, 'sample': sample}
    p_inf = math.log2(einf[1] / einf[2]) if einf[2] > 0 else 99.0
    p_l2 = math.log2(el2[1] / el2[2]) if el2[2] > 0 else 99.0
    sample['order_inf'], sample['order_l2'] = p_inf, p_l2
    maxerr = {'order_deficit': max(0.0, (need_order or 0.0) - min(p_inf, p_l2))}
    bad = []
    if need_order is not None:
        if per_axes and spacing == 'graded':
            # unequal cells on the two sides of a periodic seam: the periodic rows are first-order accurate there (same root cause
            # as the C03 finding), observed L_inf orders 0.84-1.6 and L2 orders 1.64-2.1 on the unchanged tree; the L2 order decides
            ok_order = p_l2 >= 1.3 and p_inf >= 0.6
            ok_red = el2[2] <= el2[0] / 4.0
        elif 'upwind' in tset:
            # upwind sets are second-order tests against the MODIFIED equation (numerical diffusion |u|*delta/2 in the oracle);
            # on the coarse 3-D grids the L_inf order is depressed by the outflow-boundary faces, so the L2 order decides
            # (>= 1.35; observed minimum on the correct tree 1.57) and the L_inf order must be >= 0.9
            ok_order = p_l2 >= 1.35 and p_inf >= 0.9
            ok_red = el2[2] <= el2[0] / 4.0
        else:
            ok_order = min(p_inf, p_l2) >= need_order
            ok_red = einf[2] <= einf[0] / need_red and el2[2] <= el2[0] / need_red
        if not ok_order:
            bad.append(('order', '%s %s BC %s terms %s %s: observed fine-pair order L_inf %.2f / L2 %.2f (need >= %.2f); errors L_inf %r' % (
                cls, spacing, bcv, tset, tmode, p_inf, p_l2, 1.35 if 'upwind' in tset else need_order, ['%.3g' % e for e in einf])))
        if not ok_red:
            bad.append(('reduction', '%s %s BC %s terms %s %s: error not reduced enough over two refinements: L_inf %r L2 %r' % (
                cls, spacing, bcv, tset, tmode, ['%.3g' % e for e in einf], ['%.3g' % e for e in el2])))
    else:
        # dt~h sets: error a*dt + b*h^2 with a, b of either sign (observed on a correct tree: L2 errors 1.9e-3, 4.9e-4, 4.9e-4), so
        # no single-pair order is implied; require an overall L2 reduction >= 1.5 and no growth on the fine pair.  The transient
        # term itself is decided sharply by the dt~h^2 sets (second-order criterion) and by C12
        r_inf = einf[1] / einf[2] if einf[2] > 0 else 99.0
        r_l2 = el2[1] / el2[2] if el2[2] > 0 else 99.0
        # (seed 2, SphericalGrid1D: L2 errors 1.14e-3, 1.17e-4, 1.30e-4 - the two contributions cancel on the middle grid, so the fine pair
        # "grows" by 11 % while the finest error is 9 times below the coarsest: growth on the fine pair only counts when the finest
        # error is not yet a quarter of the coarsest, i.e. two halvings of a first-order error)
        if (el2[2] > 1.1 * el2[1] and el2[2] > 1.1 * el2[0] / 4.0) or el2[2] > el2[0] / 1.5:
            bad.append(('stagnation', '%s %s BC %s terms %s %s: first-order scheme does not converge: fine-pair error ratios L_inf %.2f / L2 %.2f, errors L_inf %r L2 %r' % (
                cls, spacing, bcv, tset, tmode, r_inf, r_l2, ['%.3g' % e for e in einf], ['%.3g' % e for e in el2])))
    if bad:
        return {'verdict': 'violated', 'mech': '%s/%s/%s' % (cls, tset.replace('D+', ''), bad[0][0]), 'key': key, 'cov': cov, 'maxerr': maxerr, 'nontrivial': True,
                'msg': '; '.join(b[1] for b in bad)[:700], 'witness': {'case': case, 'sample': sample}, 'sample': sample}
    return {'verdict': 'held', 'key': key, 'cov': cov, 'maxerr': maxerr, 'nontrivial': True, 'sample': sample}


TSETS = ['D', 'D+central', 'D+upwind', 'D+src', 'D+central+src']
BUDGET_S = {'quick': 1500.0, 'thorough': 5 * 3600.0}


def plan(tier, seed):
    cases = []
    i = 0
    for ci, cls in enumerate(CLASSES):
        nd = NDIM[cls]
        if tier == 'quick':
            combos = [('uniform', 'DRNDRN', 'D+central', 'steady'), ('graded', 'RNDNDN', 'D+upwind+src', 'steady', [-1, -1, -1]),
                      ('graded', 'NDNRND', 'D+upwind', 'steady', [1, 1, 1]),
                      ('graded', 'DRRNDR', 'D+upwind', 'steady', [1, -1, 1], 'high'),
                      ('graded', 'NRRDDR', 'D', 'dt~h2' if nd < 3 else 'steady'), ('uniform', 'DDRRNN', 'D+src', 'steady'),
                      ('graded', 'RNNRRN', 'D+central+src', 'steady'),
                      ('graded', 'MMMMMM', 'D+src', 'steady'), ('uniform', 'MDNMRM', 'D', 'steady')]
            if nd < 3:
                combos.append(('graded', 'RNDRDN', 'D+central+src', 'dt~h'))
                combos.append(('graded', 'DRRDNR', 'D+upwind', 'steady', [-1, 1, -1]))
        else:
            rng = gen.rng_for(seed, 2, ci)
            combos = []
            for spacing in ('uniform', 'graded'):
                for tset in TSETS + ['D+upwind+src']:
                    for rep in range(6 if nd < 3 else 2):
                        bc = ''.join(rng.choice(['D', 'N', 'R', 'M'], 6))
                        combos.append((spacing, bc, tset, 'steady', [int(x) for x in rng.choice([-1, 1], 3)], 'high' if rep % 3 == 2 else 'moderate'))
                for tset in ('D', 'D+central', 'D+upwind'):
                    for tmode in ('dt~h2', 'dt~h'):
                        if nd == 3 and tmode == 'dt~h2':
                            continue
                        bc = ''.join(rng.choice(['D', 'N', 'R', 'M'], 6))
                        combos.append((spacing, bc, tset, tmode))
        for combo in combos:
            spacing, bc, tset, tmode = combo[:4]
            usign = combo[4] if len(combo) > 4 else None
            pe = combo[5] if len(combo) > 5 else 'moderate'
            n0 = None
            if nd == 3 and tmode != 'steady':
                n0 = 4
            # the same problems in nanometre / megametre units (every third / seventh case) and with the advection matrix built
            # before the diffusion matrix on the shared mesh (every second case)
            lunit = [None, None, 1e-8, None, None, None, 1e6][i % 7] if tier == 'quick' else [None, 1e-8, None, 3e-10, 1e6][i % 5]
            cases.append({'cls': cls, 'spacing': spacing, 'bc': list(bc), 'tset': tset, 'tmode': tmode, 'n0': n0, 'usign': usign, 'pe': pe, 'seed': [seed, 2, ci, i],
                          'lunit': lunit, 'order': 'adv-first' if i % 2 else 'diff-first', 'route': ['plain', 'list-twice', 'matrix', 'zero-alpha'][i % 4] if tmode == 'steady' else 'plain', 'refreshed': (i // 2) % 2 == 1})
            i += 1
    # strips (one cell across, both orientations, flow along the strip and across it) and periodic axes (full circle / periodic box)
    for ci, cls in enumerate(CLASSES):
        nd = NDIM[cls]
        if nd == 1:
            continue
        reps = 1 if tier == 'quick' else 4
        for rep in range(reps):
            for t in range(nd):
                if AXKIND[cls][t] in ('rad', 'pol'):      # metric factors depend on r and theta: one thick cell along them is no convergence test
                    continue
                for tset in (('D+upwind', 'D+central') if tier != 'quick' else ('D+upwind',)):
                    cases.append({'cls': cls, 'spacing': 'graded', 'bc': list('DRNDRN'), 'tset': tset, 'tmode': 'steady', 'n0': 8 if nd == 2 else 5, 'usign': [1, 1, 1] if rep % 2 == 0 else [-1, 1, -1],
                                  'pe': 'moderate', 'seed': [seed, 2, ci, 5000 + i], 'strip': t, 'order': 'diff-first'})
                    i += 1
            per_cand = [k for k in range(nd) if AXKIND[cls][k] in ('ang', 'len')]
            for k in per_cand[:2] if tier == 'quick' else per_cand:
                for spacing in ('uniform', 'graded', 'graded'):
                    cases.append({'cls': cls, 'spacing': spacing, 'bc': list('DRDRDR'), 'tset': 'D+central' if (rep + i) % 2 else 'D', 'tmode': 'steady', 'n0': None if nd == 2 else 5,
                                  'usign': None, 'pe': 'moderate', 'seed': [seed, 2, ci, 6000 + i], 'periodic': [k], 'order': 'diff-first'})
                    i += 1
    # one case per chunk for the 3-D classes (cost), a few per chunk otherwise
    chunks = []
    small = [c for c in cases if NDIM[c['cls']] < 3]
    big = [c for c in cases if NDIM[c['cls']] == 3]
    for c in big:
        chunks.append([c])
    for j in range(0, len(small), 3):
        chunks.append(small[j:j + 3])
    return chunks


def floors(agg, tier):
    out = []
    for cls in CLASSES:
        if agg['cov'].get('cases:' + cls, 0) < 4:
            out.append('cases:%s < 4' % cls)
    for k in ('route:list-twice', 'route:matrix', 'route:zero-alpha', 'bc:M', 'strip:yes', 'periodic:yes', 'length_unit:small', 'length_unit:large', 'order:adv-first', 'order:diff-first', 'bc:D', 'bc:N', 'bc:R', 'spacing:uniform', 'spacing:graded', 'tset:D', 'tset:D+central', 'tset:D+src', 'tmode:steady'):
        if agg['cov'].get(k, 0) < 3:
            out.append('%s < 3' % k)
    if agg['cov'].get('tmode:dt~h2', 0) + agg['cov'].get('tmode:dt~h', 0) < 3:
        out.append('transient cases < 3')
    return out
