"""C14 - variable algebra is elementwise, side-effect free and yields independent objects.

Contracts evaluated around every operator call of the workload (bounded-exhaustive over operator x operand kind,
random expression trees of depth <= 4)."""
import operator

import numpy as np

import pyfvtool as pf

from ..oracles import CLASSES, NDIM, SIDES, Geom
from .. import gen
from ..common import digest, cellvar_arrays, bc_arrays, to_list
from ..bcrel import check_ghosts

ID = 'C14'
RULE = ('cases = (grid class, variable kind Cell/Face, operator, operand kind in {variable, python int/float/bool, numpy scalar, '
        'interior-shaped ndarray, size-1 ndarray; left or right}) enumerated, plus random expression trees of depth<=4 and '
        'funceval/celleval/faceeval with 1..8 arguments; operands carry random BCs (Dirichlet/Neumann/Robin/periodic). '
        'non-trivial = operand fields not constant; distinct by (class, kind, operator, operand kind, side)')
ASSUMPTIONS = ['reference semantics: numpy evaluation of the same expression on operand interior (face) values, compared bitwise '
               '(NaN-equal)']
EXHAUSTIVE = {'quick': False, 'thorough': False}

BIN = {'add': operator.add, 'sub': operator.sub, 'mul': operator.mul, 'truediv': operator.truediv, 'pow': operator.pow,
       'gt': operator.gt, 'ge': operator.ge, 'lt': operator.lt, 'le': operator.le}
LOGIC = {'and': (operator.and_, np.logical_and), 'or': (operator.or_, np.logical_or)}
UN = {'neg': (operator.neg, np.negative), 'abs': (abs, np.abs)}
SCALARS = {'int': 3, 'float': 0.75, 'bool': True, 'npfloat': np.float64(1.25), 'npint': np.int64(2), 'zero': 0}


def mkcell(rng, m, g, positive=False, scale=1.0):
    spec = None
    for _ in range(20):
        per = [k for k in range(g.nd) if gen.periodic_ok(g.cls, k) and rng.random() < 0.2]
        spec = gen.gen_bc_spec(rng, g, periodic_axes=per)
        if gen.bc_nonsingular(g, spec):
            break
    BC = gen.make_bc(pf, m, g, spec)
    vals = rng.normal(0, 1, g.dims) * 3
    if positive:
        vals = np.abs(vals) + 0.5
    if rng.random() < 0.3:
        vals = np.round(vals)
    if rng.random() < 0.5:
        return pf.CellVariable(m, vals.copy() * scale, BC)
    # the other way of getting the same variable: default boundary conditions edited afterwards, then brought to a clean state
    # (apply_BCs(), as after any solve) - its boundary conditions are its own just the same
    v = pf.CellVariable(m, vals.copy() * scale)
    gen.apply_bc_spec(v.BCs, g, spec)
    v.apply_BCs()
    return v


def snapshot_cell(v):
    return digest(*cellvar_arrays(v))


def snapshot_face(f):
    return digest(f._xvalue, f._yvalue, f._zvalue)


def eq(a, b):
    a, b = np.asarray(a), np.asarray(b)
    if a.shape != b.shape:
        return False
    try:
        return bool(np.array_equal(a, b, equal_nan=True))
    except TypeError:
        return bool(np.array_equal(a, b))


def all_arrays_cell(v):
    out = [v._value]
    for side in ('left', 'right', 'bottom', 'top', 'back', 'front'):
        f = getattr(v.BCs, side)
        out += [f._a, f._b, f._c]
    return out


def independence_cell(res, operands, g, rng):
    """result is a new object sharing no storage; cross-modification probes both ways"""
    bad = []
    vars_ = [o for o in operands if isinstance(o, pf.CellVariable)]
    for o in vars_:
        if res is o:
            bad.append(('identity', 'operator returned one of its operands'))
        if res.BCs is o.BCs:
            bad.append(('bc-shared', 'result shares the BoundaryConditions object of an operand'))
        for ra in all_arrays_cell(res):
            for oa in all_arrays_cell(o):
                if ra.size and oa.size and np.shares_memory(ra, oa):
                    bad.append(('aliasing', 'result array shares memory with an operand array'))
    # pending-edit bookkeeping is per object as well: bring everything to a clean state, edit the result's boundary data - no operand
    # may become "modified"; edit an operand's, refresh the result - the operand's edit must still be pending
    if vars_ and not any(res is o or res.BCs is o.BCs for o in vars_):
        for v_ in vars_ + [res]:
            v_.apply_BCs()
        res.BCs.left.c = np.asarray(res.BCs.left.c) + 0.25
        if any(o.BCs.modified for o in vars_):
            bad.append(('flags-coupled', 'a boundary-condition edit on the result marked an operand\'s boundary conditions as modified'))
        res.apply_BCs()
        vars_[0].BCs.right.c = np.asarray(vars_[0].BCs.right.c) - 0.5
        res.apply_BCs()
        if not vars_[0].BCs.modified:
            bad.append(('flags-coupled', 'apply_BCs() on the result cleared the pending boundary-condition edit of an operand'))
        vars_[0].apply_BCs()
    before = [snapshot_cell(o) for o in vars_]
    # edit the result: values, BC coefficient, periodic flag
    res.value = res.value + 1.0
    res.value[tuple(0 for _ in range(g.nd))] = -77.0
    res.BCs.left.a[...] = res.BCs.left.a + 5.0
    res.BCs.right.c = 9.0
    if g.nd > 1:
        res.BCs.top.b[...] = -3.0
    k = g.nd - 1
    getattr(res.BCs, SIDES[k][1]).periodic = not getattr(res.BCs, SIDES[k][1]).periodic
    after = [snapshot_cell(o) for o in vars_]
    if before != after:
        bad.append(('result-edit-leaks', 'editing the result (values / BC coefficients / periodic flag) changed an operand'))
    # and vice versa
    rsnap = snapshot_cell(res)
    for o in vars_:
        o.value = o.value * 2.0 + 1.0
        o.BCs.left.c = 123.0
        o.BCs.right.a[...] = 0.5
        getattr(o.BCs, SIDES[0][0]).periodic = not getattr(o.BCs, SIDES[0][0]).periodic
    if snapshot_cell(res) != rsnap:
        bad.append(('operand-edit-leaks', 'editing an operand afterwards changed the result'))
    return bad


def check_cell_result(res, expect_vals, leftmost, operands, g, rng, cov):
    bad = []
    if not isinstance(res, pf.CellVariable):
        return [('type', 'result is %s, not CellVariable' % type(res).__name__)]
    ex = np.asarray(expect_vals)
    got = np.asarray(res.value)
    if not eq(got, ex.astype(float) if ex.dtype == bool else ex):
        bad.append(('values', 'interior values differ from the numpy evaluation: got %r expected %r' % (to_list(got.ravel()[:5]), to_list(ex.ravel()[:5]))))
    # BCs equal to the left-most variable operand's
    if digest(*bc_arrays(res.BCs)) != digest(*bc_arrays(leftmost.BCs)):
        bad.append(('bc-carry', 'result does not carry the boundary conditions of its left-most variable operand'))
    if np.all(np.isfinite(got)):
        b2, me, cv = check_ghosts(g, res._value, res.BCs)
        bad += [('ghosts/' + m_, s) for m_, s in b2]
        cov['ghost_checks'] = cov.get('ghost_checks', 0) + 1
    return bad


def run_case(case):
    rng = gen.rng_for(*case['seed'])
    cls = case['cls']
    faces, meta = gen.gen_grid(rng, cls, nmin=1, nmax=4 if NDIM[cls] < 3 else 3)
    g = Geom(cls, faces)
    m = gen.build_mesh(pf, cls, faces)
    kind = case['kind']
    cov = {'ops:' + kind: 1, 'cls:' + cls: 1}
    bad = []
    key = '%s/%s/%s/%s/%s/%s' % (cls, kind, case.get('op'), case.get('operand'), case.get('side'), 'small' if case.get('small') else '')
    sample = {'case': {k: v for k, v in case.items() if k != 'seed'}, 'grid': gen.describe_grid(meta, faces)}
    with np.errstate(all='ignore'):
        if kind == 'cell-bin':
            op = case['op']
            positive = op in ('pow', 'truediv')
            # 'small': the same operands in nano units (values ~1e-9: positions in metres on a nanometre domain, trace concentrations)
            sc_ = float(10 ** rng.uniform(-11, -8)) if case.get('small') else 1.0
            if case.get('small'):
                cov['small_unit_operands'] = 1
            a = mkcell(rng, m, g, positive, scale=sc_)
            okind, side = case['operand'], case['side']
            if okind == 'var':
                b = mkcell(rng, m, g, positive, scale=sc_)
                bval = b.value.copy()
            elif okind == 'ndarray':
                b = (np.abs(rng.normal(0, 1, g.dims)) + 0.5) * sc_
                bval = b.copy()
            elif okind == 'size1':
                b = np.array([1.5]) * sc_
                bval = b.copy()
            else:
                b = SCALARS[okind] if not case.get('small') else SCALARS[okind] * sc_
                bval = b
            aval = a.value.copy()
            snaps = [snapshot_cell(a)] + ([snapshot_cell(b)] if okind == 'var' else [digest(np.asarray(b))])
            if op in BIN:
                f = BIN[op]
                npf = f
            else:
                f, npf = LOGIC[op]
            if side == 'right':
                res = f(a, b)
                ex = npf(aval, bval)
            else:
                res = f(b, a)
                ex = npf(bval, aval)
            snaps2 = [snapshot_cell(a)] + ([snapshot_cell(b)] if okind == 'var' else [digest(np.asarray(b))])
            if snaps != snaps2:
                bad.append(('operand-modified', 'operator %s modified an operand' % op))
            if isinstance(res, pf.CellVariable):
                # the same operation once more; NOTHING looks at this result before the operand's boundary data are changed: the
                # result carries the conditions its operand had when the operation took place
                lm_ = a if not (side == 'left' and okind == 'var') else b
                bc_then = digest(*bc_arrays(lm_.BCs))
                c_saved = np.array(np.asarray(lm_.BCs.left.c), copy=True)
                res_late = f(a, b) if side == 'right' else f(b, a)
                lm_.BCs.left.c = c_saved + 1.75
                if isinstance(res_late, pf.CellVariable) and digest(*bc_arrays(res_late.BCs)) != bc_then:
                    bad.append(('operand-edit-leaks', 'operator %s: boundary data of the operand edited right after the operation (before the result was looked at) show up in the result' % op))
                lm_.BCs.left.c = c_saved
                cov['operand_edited_before_result_read'] = 1
            if side == 'left' and okind in ('npfloat', 'npint', 'ndarray', 'size1'):
                # numpy takes over the dispatch: values only
                if not eq(np.asarray(res, dtype=float) if not isinstance(res, pf.CellVariable) else res.value, np.asarray(ex, dtype=float)):
                    bad.append(('values', 'numpy-left %s: values differ' % op))
            else:
                leftmost = a if not (side == 'left' and okind == 'var') else b
                operands = [a, b]
                bad += check_cell_result(res, ex, leftmost, operands, g, rng, cov)
                if isinstance(res, pf.CellVariable):
                    bad += independence_cell(res, operands, g, rng)
        elif kind == 'cell-un':
            a = mkcell(rng, m, g)
            f, npf = UN[case['op']]
            aval = a.value.copy()
            s0 = snapshot_cell(a)
            res = f(a)
            if snapshot_cell(a) != s0:
                bad.append(('operand-modified', 'unary %s modified its operand' % case['op']))
            bad += check_cell_result(res, npf(aval), a, [a], g, rng, cov)
            bad += independence_cell(res, [a], g, rng)
        elif kind == 'cell-copy':
            a = mkcell(rng, m, g)
            state = case.get('state', 'consistent')
            if state == 'ghosts-given':
                # constructor form "array including ghost cells": the stored boundary values are the caller's
                a = pf.CellVariable(m, rng.normal(0, 1, g.full_shape()), a.BCs)
            elif state == 'value-edited':
                a.value = a.value * 0.5 + 2.0              # boundary values not yet refreshed
            elif state == 'bc-edited':
                a.BCs.left.c = np.asarray(a.BCs.left.c) + 3.0
            elif state == 'from-solveMatrixPDE':
                Mbc, bbc = pf.boundaryConditionsTerm(a.BCs)
                Mt, bt = pf.transientTerm(a, 0.1, 1.0)
                a2 = pf.solveMatrixPDE(m, Mbc + Mt, bbc + bt)
                if np.all(np.isfinite(np.asarray(a2._value)[tuple(slice(1, -1) for _ in range(g.nd))])):
                    a = a2
            cov['copy_state:' + state] = 1
            s0 = snapshot_cell(a)
            full0 = np.array(a._value, copy=True)
            res = a.copy()
            if snapshot_cell(a) != s0:
                bad.append(('operand-modified', 'copy() modified the original'))
            if not eq(res._value, full0) or digest(*bc_arrays(res.BCs)) != digest(*bc_arrays(a.BCs)):
                bad.append(('copy-unequal', 'copy() is not equal to the original (values incl. boundary values / BCs)'))
            bad += independence_cell(res, [a], g, rng)
        elif kind == 'cell-eval':
            n = case['nargs']
            args = [mkcell(rng, m, g) for _ in range(n)]
            vals = [x.value.copy() for x in args]
            s0 = [snapshot_cell(x) for x in args]
            coefs = rng.normal(0, 1, n)

            def fun(*xs):
                out = 0.0
                for c_, x in zip(coefs, xs):
                    out = out + c_ * np.sin(x)
                return out
            fn = pf.funceval if case['op'] == 'funceval' else pf.celleval
            res = fn(fun, *args)
            if [snapshot_cell(x) for x in args] != s0:
                bad.append(('operand-modified', '%s modified an argument' % case['op']))
            if res is None:
                bad.append(('values', '%s with %d arguments returned None' % (case['op'], n)))
            else:
                bad += check_cell_result(res, fun(*vals), args[0], args, g, rng, cov)
                bad += independence_cell(res, args, g, rng)
        elif kind == 'cell-tree':
            leaves = [mkcell(rng, m, g, positive=True) for _ in range(3)]
            lvals = [x.value.copy() for x in leaves]
            s0 = [snapshot_cell(x) for x in leaves]

            def build(depth):
                """returns (real, shadow ndarray/scalar, leftmost variable or None)"""
                if depth == 0 or rng.random() < 0.25:
                    r = rng.random()
                    if r < 0.6:
                        i = int(rng.integers(0, 3))
                        return leaves[i], lvals[i], leaves[i]
                    if r < 0.8:
                        s = float(rng.choice([2.0, 0.5, 3.0]))
                        return s, s, None
                    s = int(rng.integers(1, 4))
                    return s, s, None
                opn = str(rng.choice(['add', 'sub', 'mul', 'truediv', 'neg', 'abs', 'add', 'mul']))
                if opn in UN:
                    x, sx, lx = build(depth - 1)
                    if lx is None:
                        return x, sx, lx
                    f, npf = UN[opn]
                    return f(x), npf(sx), lx
                x, sx, lx = build(depth - 1)
                y, sy, ly = build(depth - 1)
                if lx is None and ly is None:
                    return x, sx, None
                return BIN[opn](x, y), BIN[opn](sx, sy), (lx if lx is not None else ly)
            res, ex, lm = build(case.get('depth', 4))
            if lm is None or not isinstance(res, pf.CellVariable) or any(res is x for x in leaves):
                return {'verdict': 'held', 'key': key + '/trivial', 'nontrivial': False, 'cov': cov, 'sample': sample}
            if [snapshot_cell(x) for x in leaves] != s0:
                bad.append(('operand-modified', 'evaluating an expression tree modified a leaf variable'))
            bad += check_cell_result(res, ex, lm, leaves, g, rng, cov)
            bad += independence_cell(res, leaves, g, rng)
        elif kind in ('face-bin', 'face-un', 'face-eval'):
            def mkface(positive=False):
                arrs, _ = gen.face_arrays(rng, g, 'random', positive=False)
                if positive:
                    arrs = [np.abs(x) + 0.5 for x in arrs]
                if rng.random() < 0.5:
                    return gen.facevar(pf, m, arrs)
                # the other documented way: a uniform variable whose components are then assigned, whole arrays, under the labels
                # of the grid's coordinate system
                from ..oracles import LABELS
                fv_ = pf.FaceVariable(m, 0.0)
                for lab_, a_ in zip(LABELS[cls], arrs):
                    setattr(fv_, {'x': 'xvalue', 'y': 'yvalue', 'z': 'zvalue', 'r': 'rvalue', 'theta': 'thetavalue', 'phi': 'phivalue'}[lab_], np.array(a_, dtype=float))
                cov['face_components_via_labels'] = cov.get('face_components_via_labels', 0) + 1
                return fv_
            nd = g.nd
            if kind == 'face-bin':
                op = case['op']
                positive = op in ('pow', 'truediv')
                a = mkface(positive)
                okind, side = case['operand'], case['side']
                if okind == 'var':
                    b = mkface(positive)
                elif okind == 'size1':
                    b = np.array([1.5])
                else:
                    b = SCALARS[okind]
                av = [np.array(x, copy=True) for x in (a._xvalue, a._yvalue, a._zvalue)]
                bv = [np.array(x, copy=True) for x in (b._xvalue, b._yvalue, b._zvalue)] if okind == 'var' else [b, b, b]
                s0 = [snapshot_face(a)] + ([snapshot_face(b)] if okind == 'var' else [])
                if op in BIN:
                    f = npf = BIN[op]
                else:
                    f, npf = LOGIC[op]
                res = f(a, b) if side == 'right' else f(b, a)
                exs = [npf(x, y) if side == 'right' else npf(y, x) for x, y in zip(av, bv)]
                operands = [a] + ([b] if okind == 'var' else [])
            elif kind == 'face-un':
                a = mkface()
                f, npf = UN[case['op']]
                av = [np.array(x, copy=True) for x in (a._xvalue, a._yvalue, a._zvalue)]
                s0 = [snapshot_face(a)]
                res = f(a)
                exs = [npf(x) for x in av]
                operands = [a]
            else:
                n = case['nargs']
                operands = [mkface() for _ in range(n)]
                coefs = rng.normal(0, 1, n)

                def fun(*xs):
                    out = 0.0
                    for c_, x in zip(coefs, xs):
                        out = out + c_ * np.cos(x)
                    return out
                s0 = [snapshot_face(x) for x in operands]
                vals = [[np.array(y, copy=True) for y in (x._xvalue, x._yvalue, x._zvalue)] for x in operands]
                res = pf.faceeval(fun, *operands)
                exs = [fun(*[v[j] for v in vals]) for j in range(3)]
            if [snapshot_face(x) for x in operands] != s0[:len(operands)]:
                bad.append(('operand-modified', '%s modified a FaceVariable operand' % case.get('op')))
            if side_numpy_left(case):
                pass
            elif not isinstance(res, pf.FaceVariable):
                bad.append(('type', 'result is %s, not FaceVariable' % type(res).__name__))
            else:
                got = [res._xvalue, res._yvalue, res._zvalue]
                for j in range(3):
                    if not eq(got[j], exs[j]):
                        bad.append(('values', 'component %d differs from the numpy evaluation' % j))
                for o in operands:
                    if res is o:
                        bad.append(('identity', 'operator returned its operand'))
                    for x in got:
                        for y in (o._xvalue, o._yvalue, o._zvalue):
                            if np.size(x) and np.size(y) and np.shares_memory(x, y):
                                bad.append(('aliasing', 'result component shares memory with an operand component'))
                before = [snapshot_face(o) for o in operands]
                for x in got:
                    if np.size(x) and np.asarray(x).dtype.kind == 'f':
                        x[...] = -5.0
                if [snapshot_face(o) for o in operands] != before:
                    bad.append(('result-edit-leaks', 'editing the result changed an operand'))
        else:
            raise KeyError(kind)
    if bad:
        bad = sorted(set(bad))
        vk = 'Cell' if kind.startswith('cell') else 'Face'
        sub = bad[0][0]
        mech = ('%s/%s' % (vk, sub)) if sub.startswith('ghosts/') else '%s/%s/%s' % (vk, case.get('op', kind), sub)
        return {'verdict': 'violated', 'mech': mech, 'key': key, 'cov': cov,
                'nontrivial': True, 'msg': '; '.join(b[1] for b in bad)[:600],
                'witness': {'cls': cls, 'faces': [to_list(f) for f in faces], 'case': case}, 'sample': sample}
    return {'verdict': 'held', 'key': key, 'cov': cov, 'nontrivial': True, 'sample': sample}


def side_numpy_left(case):
    return case.get('side') == 'left' and case.get('operand') in ('npfloat', 'npint', 'size1', 'ndarray')


def plan(tier, seed):
    reps = 1 if tier == 'quick' else 12
    chunks = []
    for ci, cls in enumerate(CLASSES):
        cases = []
        i = 0
        for rep in range(reps):
            for op in list(BIN) + list(LOGIC):
                for okind in ['var', 'ndarray', 'size1'] + list(SCALARS):
                    for side in ('right', 'left'):
                        if side == 'left' and okind in ('var',):
                            continue
                        if op in LOGIC and side == 'left':
                            continue      # no reflected logical operators are defined
                        if op in ('gt', 'ge', 'lt', 'le') and side == 'left':
                            continue      # python swaps comparisons (a < v -> v > a): covered on the right
                        cases.append({'kind': 'cell-bin', 'cls': cls, 'op': op, 'operand': okind, 'side': side, 'seed': [seed, 14, ci, i]})
                        i += 1
                        if okind in ('var', 'ndarray', 'float', 'npfloat', 'int') and op not in ('pow',):
                            cases.append({'kind': 'cell-bin', 'cls': cls, 'op': op, 'operand': okind, 'side': side, 'small': True, 'seed': [seed, 14, ci, i]})
                            i += 1
                        if okind != 'ndarray' and not (side == 'left' and okind in ('npfloat', 'npint', 'size1')):
                            cases.append({'kind': 'face-bin', 'cls': cls, 'op': op, 'operand': okind, 'side': side, 'seed': [seed, 14, ci, i]})
                            i += 1
            for op in UN:
                cases.append({'kind': 'cell-un', 'cls': cls, 'op': op, 'seed': [seed, 14, ci, i]})
                cases.append({'kind': 'face-un', 'cls': cls, 'op': op, 'seed': [seed, 14, ci, i + 1]})
                i += 2
            for state in ('consistent', 'ghosts-given', 'value-edited', 'bc-edited', 'from-solveMatrixPDE'):
                for _r in range(2):
                    cases.append({'kind': 'cell-copy', 'cls': cls, 'op': 'copy', 'operand': state, 'state': state, 'seed': [seed, 14, ci, i]})
                    i += 1
            for n in range(1, 9):
                for fn in ('funceval', 'celleval'):
                    cases.append({'kind': 'cell-eval', 'cls': cls, 'op': fn, 'nargs': n, 'operand': n, 'seed': [seed, 14, ci, i]})
                    i += 1
                cases.append({'kind': 'face-eval', 'cls': cls, 'op': 'faceeval', 'nargs': n, 'operand': n, 'seed': [seed, 14, ci, i]})
                i += 1
            for t in range(10 if tier == 'quick' else 40):
                cases.append({'kind': 'cell-tree', 'cls': cls, 'op': 'tree', 'operand': t, 'depth': 2 + t % 3, 'seed': [seed, 14, ci, i]})
                i += 1
        step = 60
        for j in range(0, len(cases), step):
            chunks.append(cases[j:j + step])
    return chunks


def floors(agg, tier):
    out = []
    for k in ('cell-bin', 'cell-un', 'cell-copy', 'cell-eval', 'cell-tree', 'face-bin', 'face-un', 'face-eval'):
        if agg['cov'].get('ops:' + k, 0) < 9:
            out.append('ops:%s < 9' % k)
    for cls in CLASSES:
        if agg['cov'].get('cls:' + cls, 0) < 100:
            out.append('cls:%s < 100' % cls)
    for st in ('consistent', 'ghosts-given', 'value-edited', 'bc-edited', 'from-solveMatrixPDE'):
        if agg['cov'].get('copy_state:' + st, 0) < 9:
            out.append('copy_state:%s < 9' % st)
    if agg['cov'].get('face_components_via_labels', 0) < 200:
        out.append('face_components_via_labels < 200')
    if agg['cov'].get('small_unit_operands', 0) < 300:
        out.append('small_unit_operands < 300')
    if agg['cov'].get('ghost_checks', 0) < 500:
        out.append('ghost_checks < 500')
    return out
