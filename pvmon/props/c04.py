"""C04 - solvePDE solves exactly the system its term list and BCs define, in place.

Spy solver + independent assembly: the harness sums the very term objects it hands to solvePDE plus a freshly built
boundaryConditionsTerm and compares with the system the spy solver received and with the values left in the variable."""
import numpy as np
import scipy.sparse as sp

import pyfvtool as pf

from ..oracles import CLASSES, NDIM, LIMITERS, SIDES, Geom
from .. import gen
from ..common import SpySolver, residual_err, interior_index, nerr, to_list, TOL, digest

ID = 'C04'
RULE = ('cases = (grid class, N, spacing family, BC kinds incl. periodic subsets, term list drawn from a grammar: matrix terms '
        '{-diffusion, central, upwind, linear source}, vector terms {constant source, TVD correction, explicit divergence}, pairs '
        '{transientTerm, scaled (M,v) tuples}, each optionally negated / scaled, shuffled, repeated); kinds: "system" (identity, '
        'residual on all rows, spy system == hand-assembled system, default path == solveMatrixPDE), "rows" (builders emit interior '
        'rows only), "linear" (superposition in sources, boundary data c and previous-step values). non-trivial = at least two '
        'terms of different kinds; distinct by (class, N, families, BC vector, sorted term-kind multiset)')
ASSUMPTIONS = ['cases whose assembled system has 1-norm condition number above 1e12 or a non-finite solution are inconclusive (singular '
               'coefficient choice), not violations']


def draw_terms(rng, m, g, phi, want_pair=True, units=None):
    """returns list of (term object, kind string, Mpart or None, vpart or None); units = {'L','T','K'}: every coefficient is
    expressed in that unit system (D x L^2/T, u x L/T, beta x 1/T, gamma x K/T, dt x T)"""
    un = units or {'L': 1.0, 'T': 1.0, 'K': 1.0}
    L_, T_, K_ = un['L'], un['T'], un['K']
    D, _ = gen.face_arrays(rng, g, 'random', positive=True)
    u, _ = gen.face_arrays(rng, g, 'sign')
    Df, uf = gen.facevar(pf, m, [a * L_ ** 2 / T_ for a in D]), gen.facevar(pf, m, [0.3 * a * L_ / T_ for a in u])
    pool = []
    dt = float(10 ** rng.uniform(-2, 2)) * T_
    alpha = float(10 ** rng.uniform(-1, 1)) if rng.random() < 0.6 else pf.CellVariable(m, np.exp(rng.normal(0, 0.5, g.dims)))
    tr = pf.transientTerm(phi, dt, alpha)
    pool.append((tr, 'pair:transient'))
    pool.append((-pf.diffusionTerm(Df), 'M:-diffusion'))
    choice = rng.random()
    if choice < 0.4:
        pool.append((pf.convectionUpwindTerm(uf), 'M:upwind'))
        if rng.random() < 0.5:
            pool.append((pf.convectionTVDupwindRHSTerm(uf, phi, pf.fluxLimiter(str(rng.choice(LIMITERS)))), 'v:tvd'))
    elif choice < 0.7:
        pool.append((pf.convectionTerm(uf), 'M:central'))
    if rng.random() < 0.6:
        pool.append((pf.linearSourceTerm(pf.CellVariable(m, np.abs(rng.normal(0, 1, g.dims)) / T_)), 'M:linsource'))
    if rng.random() < 0.7:
        pool.append((pf.constantSourceTerm(pf.CellVariable(m, rng.normal(0, 1, g.dims) * K_ / T_)), 'v:constsource'))
    if rng.random() < 0.3:
        pool.append((pf.divergenceTerm(Df * pf.gradientTerm(phi)) * 0.1, 'v:divergence'))
    out = []
    for term, kind in pool:
        r = rng.random()
        if kind.startswith('pair'):
            if r < 0.3:
                s = float(rng.choice([2.0, 0.5, 3.0]))
                term = (term[0] * s, term[1] * s)
                kind += '*s'
            out.append((term, kind))
            if rng.random() < 0.15:
                out.append((term, kind))          # repeated
        else:
            if r < 0.25:
                s = float(rng.choice([2.0, 0.5, 1.5]))
                term = term * s
                kind += '*s'
            elif r < 0.4:
                term = -(-term)
                kind += '--'
            out.append((term, kind))
            if rng.random() < 0.1:
                out.append((term, kind))
    if want_pair and rng.random() < 0.3:
        Mx = pf.linearSourceTerm(pf.CellVariable(m, np.abs(rng.normal(0, 1, g.dims)) / T_))
        vx = pf.constantSourceTerm(pf.CellVariable(m, rng.normal(0, 1, g.dims) * K_ / T_))
        out.append(((Mx, vx), 'pair:generic'))
    order = rng.permutation(len(out))
    out = [out[i] for i in order]
    if rng.random() < 0.35:
        # the same terms in other containers: sparse matrices of another format, a dense 2-D array, a Fortran-ordered / strided vector
        out2 = []
        for term, kind in out:
            how = str(rng.choice(['csc', 'coo', 'lil', 'dense', 'keep', 'keep']))

            def conv_m(M_):
                if how == 'keep':
                    return M_
                return sp.csr_array(M_).toarray() if how == 'dense' else getattr(sp.csr_array(M_), 'to' + how)()

            def conv_v(v_):
                if how == 'keep':
                    return v_
                buf = np.zeros(2 * len(v_))
                buf[::2] = v_
                return buf[::2]                    # a strided view
            if isinstance(term, tuple):
                term = (conv_m(term[0]), conv_v(term[1]))
            elif getattr(term, 'ndim', None) == 2:
                term = conv_m(term)
            else:
                term = conv_v(term)
            out2.append((term, kind + ('' if how == 'keep' else '@' + how)))
        out = out2
    return out


def assemble(phi, terms):
    Mbc, bbc = pf.boundaryConditionsTerm(phi.BCs)
    M = sp.csr_array(Mbc).copy()
    b = np.array(bbc, dtype=float, copy=True)
    for t, kind in terms:
        if isinstance(t, tuple):
            M = M + sp.csr_array(t[0])
            b = b + np.asarray(t[1], dtype=float)
        elif t.ndim == 2:
            M = M + sp.csr_array(t)
        else:
            b = b + np.asarray(t, dtype=float)
    return sp.csr_array(M), b


def make_problem(rng, cls, nmax, keep_open=None, units=None, geo=None):
    gfam, gopts = gen.geo_opts(rng, geo)
    faces, meta = gen.gen_grid(rng, cls, nmin=1 if not geo else 2, nmax=nmax, family=gfam, opts=gopts)
    g = Geom(cls, faces)
    capable = [k for k in range(g.nd) if gen.periodic_ok(cls, k) and abs(g.w[k][0] - g.w[k][-1]) <= 1e-12 * g.w[k][0]]
    per = [k for k in capable if rng.random() < 0.25]
    if keep_open is not None:
        per = [k for k in per if keep_open not in SIDES[k]]
    for _ in range(50):
        spec = gen.gen_bc_spec(rng, g, periodic_axes=per, lams=(1.0, -1.0, 2.5, 0.4))
        if gen.bc_nonsingular(g, spec):
            break
    if units:
        # the same problem in another unit system (well-posedness is decided above, in the original units)
        faces = gen.scale_faces(cls, faces, units['L'])
        spec = gen.scale_spec(spec, units['L'], units['K'])
        g = Geom(cls, faces)
    m = gen.build_mesh(pf, cls, faces)
    return faces, meta, g, m, spec


def ghost_rows_index(g):
    full = g.full_shape()
    mask = np.ones(full, dtype=bool)
    mask[tuple(slice(1, -1) for _ in full)] = False
    return np.flatnonzero(mask.ravel())


def run_system(case, rng, cls):
    units = gen.draw_units(rng) if case.get('units') else None
    faces, meta, g, m, spec = make_problem(rng, cls, case.get('nmax', 4), case.get('edit_side'), units=units, geo=case.get('geo'))
    cov, maxerr, bad = {}, {}, []
    if units:
        for k_, v_ in units.items():
            cov['unit_%s:%s' % (k_, 'small' if v_ < 1 else ('large' if v_ > 1 else '1'))] = 1
    if case.get('geo'):
        cov['geo:' + case['geo']] = 1
    Ku = units['K'] if units else 1.0
    BC = gen.make_bc(pf, m, g, spec)
    vals, _ = gen.cell_field(rng, g.dims, 'random')
    vals = vals * Ku
    phi = pf.CellVariable(m, vals.copy(), BC)
    layout = str(rng.choice(['interior', 'interior', 'ghosts-F', 'ghosts-T', 'ghosts-strided']))
    if layout != 'interior':
        # the constructor form "array including the ghost layer", the array being Fortran-ordered / a transposed view / a strided view
        full0 = np.zeros(g.full_shape())
        full0[tuple(slice(1, -1) for _ in range(g.nd))] = vals
        if layout == 'ghosts-F':
            arr = np.asfortranarray(full0)
        elif layout == 'ghosts-T':
            arr = np.ascontiguousarray(full0.T).T
        else:
            big = np.zeros(tuple(2 * n_ for n_ in g.full_shape()))
            big[tuple(slice(None, None, 2) for _ in range(g.nd))] = full0
            arr = big[tuple(slice(None, None, 2) for _ in range(g.nd))]
        pf.CellVariable(m, 0.0, BC).apply_BCs()        # the boundary-condition object has been in use before: its flags are clean
        phi = pf.CellVariable(m, arr, BC)
        if rng.random() < 0.5:
            phi = phi.copy()
    cov['variable_storage:' + layout] = 1
    edited = None
    if case.get('edit_side') or rng.random() < 0.5:
        # boundary conditions changed on ONE side after the variable exists (values untouched): "the variable's boundary
        # equations" are those of its current BCs
        ke = int(rng.integers(0, g.nd))
        je = int(rng.integers(0, 2))
        if case.get('edit_side'):
            ke, je = [(k_, j_) for k_ in range(g.nd) for j_ in (0, 1) if SIDES[k_][j_] == case['edit_side']][0]
        if ke not in spec['periodic']:
            edited = SIDES[ke][je]
            phi.apply_BCs()                  # clean state: no pending modification flags from construction
            fe = getattr(phi.BCs, edited)
            how = str(rng.choice(['setter', 'setter', 'untracked+apply_BCs', 'replace-object+apply_BCs']))
            if how == 'setter':
                if rng.random() < 0.5:
                    fe.c = np.asarray(fe.c) + 0.5 * Ku
                elif np.all(np.asarray(fe.a) == 0):
                    fe.fixedGradient(0.3 * Ku / (units['L'] if units else 1.0))
                else:
                    fe.fixedValue(-0.4 * Ku)
            elif how == 'untracked+apply_BCs':
                # in-place operations that the dirty flags cannot see (documented TrackedArray limitation), followed by the
                # explicit apply_BCs() the documentation prescribes for such expert use
                if rng.random() < 0.5:
                    fe.c.fill(float(rng.normal()) * Ku)
                else:
                    np.copyto(fe.c, np.asarray(fe.c) * 0.5 - 0.7 * Ku)
                phi.apply_BCs()
            else:
                from copy import deepcopy
                nb = deepcopy(phi.BCs)
                getattr(nb, edited).c = np.asarray(fe.c) * 2.0 + 0.9 * Ku
                nb.modified = False
                phi.BCs = nb
                phi.apply_BCs()
            cov['side_edit:' + edited] = 1
            cov['side_edit_how:' + how] = 1
    if rng.random() < 0.35:
        # a copy of the variable gets boundary data of its own and is solved first; the system of the ORIGINAL is still the one
        # its own (unchanged) boundary conditions define
        kt = int(rng.integers(0, g.nd))
        if kt not in spec['periodic']:
            twin = phi.copy()
            ft = getattr(twin.BCs, SIDES[kt][int(rng.integers(0, 2))])
            ft.c = np.asarray(ft.c) * 0.5 + 1.7 * Ku
            with np.errstate(all='ignore'):
                pf.solvePDE(twin, [pf.transientTerm(twin, 0.7 * (units['T'] if units else 1.0), 1.0)])
            cov['copy_solved_first'] = 1
    terms = draw_terms(rng, m, g, phi, units=units)
    Ms, bs = assemble(phi, terms)
    kinds = sorted(k for _, k in terms)
    spy = SpySolver(returns=str(rng.choice(['array', 'array', 'list', 'column'])))
    cov['solver_returns:' + spy.returns] = 1
    term_list = [t for t, _ in terms]            # ONE list object, handed to solvePDE again further down
    if rng.random() < 0.2:
        term_list = tuple(term_list)             # any sequence of terms
        cov['terms_as_tuple'] = 1
    if any('@' in k_ for _, k_ in terms):
        cov['terms_in_other_containers'] = 1
    n_terms0 = len(term_list)
    with np.errstate(all='ignore'):
        ret = pf.solvePDE(phi, term_list, externalsolver=spy)
    M, b, x = spy.last
    n = M.shape[0]
    if not np.all(np.isfinite(x)):
        return None, cov, maxerr, meta, faces, spec, kinds, 'singular system'
    if n <= 700:
        # well-posedness is judged on the row-equilibrated matrix (a unit system puts boundary rows at O(1) and interior rows at
        # O(1/T)); direct comparisons of two computed solutions use the plain condition number, which bounds their rounding
        cond = gen.equilibrated_cond(Ms)
        if not np.isfinite(cond) or cond > 1e10:
            return None, cov, maxerr, meta, faces, spec, kinds, 'ill-conditioned system (cond %.3g)' % cond
        cond_plain = float(np.linalg.cond(Ms.toarray(), 1))
    else:
        cond = cond_plain = None
    if ret is not phi:
        bad.append(('identity', 'solvePDE did not return the variable it was given'))
    if len(spy.calls) != 1:
        bad.append(('solver-calls', 'external solver called %d times' % len(spy.calls)))
    # spy system == hand assembled system
    d = abs(sp.csr_array(M) - Ms)
    sc = abs(sp.csr_array(M)) + abs(Ms)
    dm = d.toarray()
    scm = sc.toarray()
    with np.errstate(all='ignore'):
        em = np.where(dm == 0, 0.0, dm / np.where(scm > 0, scm, 1.0))
    e1 = float(em.max()) if em.size else 0.0
    e2 = nerr(b, bs, np.abs(b) + np.abs(bs))
    maxerr['system-entries'] = max(e1, e2)
    if not (e1 <= 1e-12 and e2 <= 1e-12):
        i, j = np.unravel_index(int(np.argmax(em)), em.shape)
        bad.append(('system-differs', 'the system handed to the external solver differs from (boundary rows + sum of the terms): matrix entry (%d,%d) %.12g vs %.12g; rhs error %.3g' % (
            i, j, M.toarray()[i, j], Ms.toarray()[i, j], e2)))
    # residual on all rows with the raw solution, and with the values left in the variable on interior rows
    e = residual_err(Ms, x, bs, solver_output=True)
    maxerr['residual-all-rows'] = e
    if not (e <= TOL):
        bad.append(('residual', 'raw solution does not satisfy the hand-assembled system (normalised residual %.3g)' % e))
    rows = interior_index(g.dims)
    xin = np.asarray(phi._value, dtype=float).ravel()
    if not np.array_equal(xin[rows], np.asarray(x)[rows]):
        bad.append(('stored-values', 'interior values stored in the variable are not the solver output'))
    periodic_unequal = False
    e = residual_err(Ms, xin, bs, rows, solver_output=True)
    maxerr['residual-interior-stored'] = e
    # the re-imposed boundary values are recomputed from the boundary relation; the solved ones carry the solver's norm-wise
    # backward error relative to THEIR row, i.e. amplified by (largest row scale)/(smallest boundary-row scale)
    from ..common import absmv
    s_rows = absmv(Ms, xin) + np.abs(bs)
    gr_ = ghost_rows_index(g)
    s_bc = s_rows[gr_]
    s_bc = s_bc[s_bc > 0]
    amp = float(np.max(s_rows)) / float(np.min(s_bc)) if s_bc.size else 1.0
    allowed_stored = TOL + 64.0 * n * np.finfo(float).eps * amp
    if allowed_stored > 1e-4:
        cov['stored_clause_skipped_row_scaling'] = 1
    elif not (e <= allowed_stored):
        bad.append(('residual-stored', 'values left in the variable (with re-imposed boundary values) violate the interior equations (normalised %.3g)' % e))
    # ... "together with the variable's boundary equations": the values left in the variable satisfy a*dphi/dn + b*phi = c on every
    # boundary face of its current boundary conditions (oracle geometry)
    from ..bcrel import check_ghosts
    bg, meg, cvg = check_ghosts(g, phi._value, phi.BCs)
    maxerr['stored-boundary-equations'] = meg.get('robin', 0.0)
    cov['stored_boundary_faces'] = cvg.get('robin_faces', 0) + cvg.get('wrap_faces', 0)
    bad += [('stored-boundary-equations/' + a_, 'values left in the variable: ' + s_) for a_, s_ in bg]
    # default path equals solveMatrixPDE on the hand-assembled system
    phi2 = pf.CellVariable(m, vals.copy(), gen.make_bc(pf, m, g, spec))
    if edited is not None:
        for nm in ('a', 'b', 'c'):
            setattr(getattr(phi2.BCs, edited), nm, np.asarray(getattr(getattr(phi.BCs, edited), nm)).copy())
    terms2 = [t for t, _ in terms]
    with np.errstate(all='ignore'):
        pf.solvePDE(phi2, terms2)
        fmt_m = str(rng.choice(['csr', 'csc', 'coo', 'lil']))
        ref = pf.solveMatrixPDE(m, getattr(Ms, 'to' + fmt_m)(), bs)
        cov['solveMatrixPDE_format:' + fmt_m] = 1
    if cond_plain is not None and not (cond_plain < 1e11):
        cov['direct_clause_skipped_cond'] = 1
    if cond_plain is not None and cond_plain < 1e11:
        cond = cond_plain
        scale = float(np.max(np.abs(ref.value))) + 1e-300
        e = float(np.max(np.abs(np.asarray(phi2.value) - np.asarray(ref.value)))) / scale
        maxerr['default-vs-solveMatrixPDE/cond'] = e / cond
        cov['default_path_checked'] = 1
        if e > 1e-13 * cond + 1e-14:
            bad.append(('default-path', 'solvePDE (default solver) differs from solveMatrixPDE on the hand-assembled system by %.3g (cond %.3g)' % (e, cond)))
        e = float(np.max(np.abs(np.asarray(phi2.value) - np.asarray(phi.value)))) / scale
        if e > 1e-13 * cond + 1e-14:
            bad.append(('external-vs-default', 'external-solver path and default path differ by %.3g' % e))
    # the same list object re-used for another solve after the boundary data of one side changed (terms built once, loop over BCs)
    kr = int(rng.integers(0, g.nd))
    if not bad and kr not in spec['periodic'] and cond_plain is not None:
        side_r = SIDES[kr][int(rng.integers(0, 2))]
        fr_ = getattr(phi.BCs, side_r)
        bufr = np.array(np.asarray(fr_.c), dtype=float, copy=True) - 0.8 * Ku        # the caller's own array, same shape and dtype as the stored one
        fr_.c = bufr
        handover = str(rng.choice(['same-variable', 'same-variable', 'deepcopy', 'buffer-recycled']))
        cov['reuse_handover:' + handover] = 1
        if handover == 'deepcopy':
            # the loop goes on with a deep copy of the variable (checkpoint / parameter study): the pending boundary edit travels with it
            from copy import deepcopy
            phi = deepcopy(phi)
        spy_r = SpySolver()
        with np.errstate(all='ignore'):
            pf.solvePDE(phi, term_list, externalsolver=spy_r)
        if handover == 'buffer-recycled':
            # the caller refills its array for another purpose and solves again: whatever the variable's boundary conditions are
            # now (the setter's copy, on this tree), the system solved is the one they define
            bufr[...] = bufr * 0.3 - 1.1 * Ku
            spy_r = SpySolver()
            with np.errstate(all='ignore'):
                pf.solvePDE(phi, term_list, externalsolver=spy_r)
        Mr, br, xr = spy_r.last
        Msr, bsr = assemble(phi, terms)
        dr = abs(sp.csr_array(Mr) - Msr).toarray()
        scr = (abs(sp.csr_array(Mr)) + abs(Msr)).toarray()
        with np.errstate(all='ignore'):
            er = np.where(dr == 0, 0.0, dr / np.where(scr > 0, scr, 1.0))
        e1r = float(er.max()) if er.size else 0.0
        e2r = nerr(br, bsr, np.abs(br) + np.abs(bsr))
        maxerr['system-entries-reused-list'] = max(e1r, e2r)
        cov['term_list_reused'] = 1
        if len(term_list) != n_terms0:
            bad.append(('term-list-modified', 'solvePDE changed the caller\'s term list (%d -> %d entries)' % (n_terms0, len(term_list))))
        if not (e1r <= 1e-12 and e2r <= 1e-12):
            bad.append(('system-differs-reused-list', 'second solvePDE call with the SAME term list after a boundary-data edit: the system handed to the solver differs from (current boundary rows + sum of the terms): matrix error %.3g, rhs error %.3g' % (e1r, e2r)))
    # ... and once more with nothing changed but the NUMBERS inside one matrix term (the caller rescales a reaction or transport
    # matrix it built itself, in place: same objects, same list, clean flags on the variable)
    if not bad and cond_plain is not None:
        import scipy.sparse as _sps
        cand_t = []
        for t_, _k in terms:
            mt_ = t_[0] if isinstance(t_, tuple) else t_
            if _sps.issparse(mt_) and hasattr(mt_, 'data') and isinstance(mt_.data, np.ndarray) and mt_.data.size and mt_.data.dtype.kind == 'f' and mt_.data.flags.writeable:
                cand_t.append(mt_)
        if cand_t:
            mt_ = cand_t[int(rng.integers(0, len(cand_t)))]
            mt_.data *= 1.5
            spy_t = SpySolver()
            with np.errstate(all='ignore'):
                pf.solvePDE(phi, term_list, externalsolver=spy_t)
            Mt_, bt_, _xt = spy_t.last
            Mst, bst = assemble(phi, terms)
            dt_ = abs(sp.csr_array(Mt_) - Mst).toarray()
            sct = (abs(sp.csr_array(Mt_)) + abs(Mst)).toarray()
            with np.errstate(all='ignore'):
                et = np.where(dt_ == 0, 0.0, dt_ / np.where(sct > 0, sct, 1.0))
            e1t = float(et.max()) if et.size else 0.0
            e2t = nerr(bt_, bst, np.abs(bt_) + np.abs(bst))
            cov['term_edited_in_place_between_solves'] = 1
            if not (e1t <= 1e-12 and e2t <= 1e-12):
                bad.append(('system-differs-term-edited', 'solvePDE called again with the same term list after the entries of one matrix term were rescaled in place: the system handed to the solver is not (boundary rows + sum of the terms as they are now): matrix error %.3g, rhs error %.3g' % (e1t, e2t)))
    cov['systems'] = 1
    cov['terms'] = len(terms)
    for k in set(kinds):
        cov['termkind:' + k.split('@')[0].split('*')[0].split('--')[0]] = 1
    return bad, cov, maxerr, meta, faces, spec, kinds, None


def run_rows(case, rng, cls):
    """every term builder emits rows / entries only for interior cells"""
    faces, meta, g, m, spec = make_problem(rng, cls, case.get('nmax', 4))
    cov, maxerr, bad = {}, {}, []
    phi = pf.CellVariable(m, rng.normal(0, 1, g.dims), gen.make_bc(pf, m, g, spec))
    D, _ = gen.face_arrays(rng, g, 'random', positive=True)
    u, _ = gen.face_arrays(rng, g, 'sign')
    Df, uf = gen.facevar(pf, m, D), gen.facevar(pf, m, u)
    gr = ghost_rows_index(g)
    cv = pf.CellVariable(m, rng.normal(0, 1, g.dims))
    tr = pf.transientTerm(phi, 0.1, 2.0)
    built = {
        'diffusionTerm': pf.diffusionTerm(Df), 'convectionTerm': pf.convectionTerm(uf), 'convectionUpwindTerm': pf.convectionUpwindTerm(uf),
        'linearSourceTerm': pf.linearSourceTerm(cv), 'constantSourceTerm': pf.constantSourceTerm(cv),
        'transientTerm[0]': tr[0], 'transientTerm[1]': tr[1], 'divergenceTerm': pf.divergenceTerm(Df),
        'convectionTVDupwindRHSTerm': pf.convectionTVDupwindRHSTerm(uf, phi, pf.fluxLimiter('SUPERBEE')),
    }
    nfull = int(np.prod(g.full_shape()))
    for name, obj in built.items():
        cov['rows:' + name] = 1
        if sp.issparse(obj):
            A = sp.csr_array(obj)
            if A.shape != (nfull, nfull):
                bad.append(('shape', '%s has shape %r' % (name, A.shape)))
                continue
            sub = A[gr, :]
            if sub.nnz and np.any(sub.data != 0):
                bad.append(('ghost-rows', '%s on %s writes into a ghost/boundary-cell equation' % (name, cls)))
        else:
            v = np.asarray(obj)
            if v.shape != (nfull,):
                bad.append(('shape', '%s has shape %r' % (name, v.shape)))
                continue
            if np.any(v[gr] != 0):
                bad.append(('ghost-rows', '%s on %s has a non-zero entry in a ghost/boundary-cell equation' % (name, cls)))
    return bad, cov, maxerr, meta, faces, spec, ['rows'], None


def run_linear(case, rng, cls):
    """superposition: data (gamma, c, phi_old) -> solution is linear"""
    faces, meta, g, m, spec = make_problem(rng, cls, case.get('nmax', 4))
    cov, maxerr, bad = {}, {}, []
    D, _ = gen.face_arrays(rng, g, 'random', positive=True)
    u, _ = gen.face_arrays(rng, g, 'sign')
    Df, uf = gen.facevar(pf, m, D), gen.facevar(pf, m, [0.3 * a for a in u])
    dt = float(10 ** rng.uniform(-2, 2))
    beta = pf.CellVariable(m, np.abs(rng.normal(0, 1, g.dims)))
    Mspatial = [-pf.diffusionTerm(Df), pf.convectionUpwindTerm(uf), pf.linearSourceTerm(beta)]

    def solve(gamma, cdata, old):
        sp2 = {'periodic': spec['periodic'], 'sides': {s: {k_: x_ for k_, x_ in v.items() if k_ != 'util'} for s, v in spec['sides'].items()}}
        for s in sp2['sides']:
            sp2['sides'][s]['c'] = cdata[s]
        phi = pf.CellVariable(m, old.copy(), gen.make_bc(pf, m, g, sp2))
        spy = SpySolver()
        with np.errstate(all='ignore'):
            pf.solvePDE(phi, [pf.transientTerm(phi, dt, 1.0)] + Mspatial + [pf.constantSourceTerm(pf.CellVariable(m, gamma.copy()))], externalsolver=spy)
        return spy.last

    def data():
        return (rng.normal(0, 1, g.dims), {s: rng.normal(0, 1, np.shape(v['c'])) for s, v in spec['sides'].items()}, rng.normal(0, 1, g.dims))
    d1, d2 = data(), data()
    a1, a2 = float(rng.normal()), float(rng.normal())
    d3 = (a1 * d1[0] + a2 * d2[0], {s: a1 * d1[1][s] + a2 * d2[1][s] for s in d1[1]}, a1 * d1[2] + a2 * d2[2])
    (M1, b1, x1), (M2, b2, x2), (M3, b3, x3) = solve(*d1), solve(*d2), solve(*d3)
    if not (np.all(np.isfinite(x1)) and np.all(np.isfinite(x2)) and np.all(np.isfinite(x3))):
        return None, cov, maxerr, meta, faces, spec, ['linear'], 'singular system'
    e = residual_err(M3, a1 * x1 + a2 * x2, b3, solver_output=True)
    maxerr['superposition-residual'] = e
    cov['superposition'] = 1
    if not (e <= TOL):
        bad.append(('superposition', 'a1*x1+a2*x2 does not satisfy the system of the combined data (normalised residual %.3g): solution is not linear in sources / boundary data / old values' % e))
    return bad, cov, maxerr, meta, faces, spec, ['linear'], None


def run_case(case):
    rng = gen.rng_for(*case['seed'])
    cls = case['cls']
    kind = case['kind']
    fn = {'system': run_system, 'rows': run_rows, 'linear': run_linear}[kind]
    bad, cov, maxerr, meta, faces, spec, kinds, note = fn(case, rng, cls)
    g = Geom(cls, faces)
    kv = gen.bc_kind_vector(g, spec)
    cov['kind:%s:%s' % (kind, cls)] = 1
    key = '%s/%s/%s/%s/%s/%s' % (cls, meta['n'], meta['family'], kv, kind, ','.join(kinds))
    sample = {'grid': gen.describe_grid(meta, faces), 'bc': kv, 'kind': kind, 'terms': kinds}
    if bad is None:
        return {'verdict': 'inconclusive', 'key': key, 'msg': note, 'cov': cov, 'nontrivial': False}
    if bad:
        return {'verdict': 'violated', 'mech': '%s/%s' % (kind, bad[0][0]), 'key': key, 'cov': cov, 'maxerr': maxerr, 'nontrivial': True,
                'msg': '; '.join(b[1] for b in bad)[:700],
                'witness': {'cls': cls, 'faces': [to_list(f) for f in faces], 'case': case, 'terms': kinds, 'bc': kv}, 'sample': sample}
    return {'verdict': 'held', 'key': key, 'cov': cov, 'maxerr': maxerr, 'nontrivial': len(set(kinds)) >= 2 or kind != 'system', 'sample': sample}


def plan(tier, seed):
    per = {'system': 14, 'rows': 3, 'linear': 5} if tier == 'quick' else {'system': 400, 'rows': 30, 'linear': 120}
    chunks = []
    for ci, cls in enumerate(CLASSES):
        cases = []
        i = 0
        for kind, n in per.items():
            for rep in range(n):
                cases.append({'cls': cls, 'kind': kind, 'seed': [seed, 4, ci, i], 'nmax': 4 if NDIM[cls] < 3 else 3})
                i += 1
        for rep in range(16 if tier == 'quick' else 200):     # the same kind of systems posed in extreme unit systems / special geometries
            c_ = {'cls': cls, 'kind': 'system', 'seed': [seed, 4, ci, i], 'nmax': 4 if NDIM[cls] < 3 else 3}
            if rep % 2 == 1:
                c_['geo'] = ['int', 'jitter', 'offset', 'nano', 'negative', 'wild', 'int', 'offset'][(rep // 2) % 8]
            else:
                c_['units'] = True
            cases.append(c_)
            i += 1
        for k_ in range(NDIM[cls]):          # directed: the BCs of each single side edited after the variable exists
            for side in SIDES[k_]:
                for rep in range(3 if tier == 'quick' else 20):
                    cases.append({'cls': cls, 'kind': 'system', 'edit_side': side, 'seed': [seed, 4, ci, i], 'nmax': 4 if NDIM[cls] < 3 else 3})
                    i += 1
        step = 11 if NDIM[cls] == 3 else 30
        for j in range(0, len(cases), step):
            chunks.append(cases[j:j + step])
    return chunks


def floors(agg, tier):
    out = []
    for cls in CLASSES:
        for kind, need in (('system', 8), ('rows', 3), ('linear', 3)):
            if agg['cov'].get('kind:%s:%s' % (kind, cls), 0) < need:
                out.append('kind:%s:%s < %d' % (kind, cls, need))
    for k in ('termkind:pair:transient', 'termkind:M:-diffusion', 'termkind:M:upwind', 'termkind:M:central', 'termkind:v:constsource',
              'termkind:v:tvd', 'termkind:pair:generic', 'default_path_checked', 'side_edit:left', 'side_edit:right', 'side_edit:bottom', 'side_edit:top', 'side_edit:back', 'side_edit:front',
              'side_edit_how:setter', 'side_edit_how:untracked+apply_BCs', 'side_edit_how:replace-object+apply_BCs',
              'copy_solved_first', 'term_list_reused', 'terms_as_tuple', 'terms_in_other_containers', 'variable_storage:ghosts-F', 'variable_storage:ghosts-T', 'variable_storage:ghosts-strided', 'solveMatrixPDE_format:csc', 'solver_returns:list', 'solver_returns:column', 'unit_L:small', 'unit_L:large', 'unit_T:small', 'unit_T:large', 'unit_K:small', 'unit_K:large', 'geo:int', 'geo:jitter'):
        if agg['cov'].get(k, 0) < 5:
            out.append('%s < 5' % k)
    return out
