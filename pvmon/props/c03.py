"""C03 - reported boundary values satisfy the configured boundary conditions.

Post-condition monitor (bcrel.check_ghosts) after each of the four operations that (re)compute ghost values
(construction, apply_BCs, solvePDE, solveExplicitPDE), row-consistency monitor on boundaryConditionsTerm rows,
plotprofile boundary entries, and (a,b,c)-scale invariance of the solve (residual based, via the spy solver)."""
import numpy as np
import scipy.sparse as sp

import pyfvtool as pf

from ..oracles import CLASSES, NDIM, SIDES, AXKIND, Geom
from .. import gen
from ..common import SpySolver, residual_err, nerr, interior_index, to_list, TOL, solve_with
from ..bcrel import check_ghosts, axis_periodic, side_layers

ID = 'C03'
RULE = ('cases = (grid class, N, spacing family, BC kind per side in {Dirichlet, Neumann, Robin with face-wise arrays, periodic '
        'declared on left only / right only / both}, every subset of periodic-capable axes, interior field); after each of '
        'construction / apply_BCs / solvePDE / solveExplicitPDE every boundary face is checked. non-trivial = field not '
        'constant and at least one non-default side; distinct by (class, N, families, BC-kind vector, periodic mask+flag style)')
ASSUMPTIONS = ['an axis counts as declared periodic when either of its two sides carries the periodic flag (library semantics)',
               'normalised error threshold 1e-9 on the boundary relation; wrap compared bitwise']

KEY_PER = 'rows-vs-wrap/periodic-axis-unequal-end-cells'


def build_problem(rng, cls, nmax, force_periodic=None, geo=None):
    gfam, gopts = gen.geo_opts(rng, geo)
    faces, meta = gen.gen_grid(rng, cls, nmin=1 if not geo else 2, nmax=nmax, family=gfam, opts=gopts)
    g = Geom(cls, faces)
    capable = [k for k in range(g.nd) if gen.periodic_ok(cls, k)]
    if force_periodic is None:
        per = [k for k in capable if rng.random() < 0.3]
    else:
        per = [k for k in force_periodic if k in capable]
    for _ in range(50):
        spec = gen.gen_bc_spec(rng, g, periodic_axes=per, robin_signs='wellposed' if rng.random() < 0.7 else 'any')
        if gen.bc_nonsingular(g, spec):
            break
    return faces, meta, g, spec


def apply_flags(BC, g, spec, style, rng):
    """periodic flag on left only / right only / both"""
    used = {}
    for k in spec['periodic']:
        st = style if style != 'mixed' else str(rng.choice(['left', 'right', 'both']))
        used[k] = st
        if st in ('left', 'both'):
            getattr(BC, SIDES[k][0]).periodic = True
        if st in ('right', 'both'):
            getattr(BC, SIDES[k][1]).periodic = True
    return used


def make_var(m, g, spec, vals, style, rng, ctor):
    spec_np = dict(spec, periodic=[])
    if ctor == 'bc-passed':
        BC = gen.make_bc(pf, m, g, spec_np)
        apply_flags(BC, g, spec, style, rng)
        return pf.CellVariable(m, vals.copy(), BC)
    phi = pf.CellVariable(m, vals.copy())
    gen.apply_bc_spec(phi.BCs, g, spec_np)
    apply_flags(phi.BCs, g, spec, style, rng)
    phi.apply_BCs()
    return phi


def rows_check(g, phi, bad, maxerr, cov, label):
    """boundary rows of the solver's system applied to the variable's full value array must vanish"""
    Mbc, bbc = pf.boundaryConditionsTerm(phi.BCs)
    x = np.asarray(phi._value, dtype=float).ravel()
    Mbc = sp.csr_array(Mbc)
    full = g.full_shape()
    G = np.arange(int(np.prod(full))).reshape(full)
    for k in range(g.nd):
        rows = []
        for j in (0, 1):
            idx = [slice(1, -1)] * g.nd
            idx[k] = 0 if j == 0 else -1
            rows.append(G[tuple(idx)].ravel())
        rows = np.concatenate(rows)
        e = residual_err(Mbc, x, bbc, rows)
        per = axis_periodic(phi.BCs, k)
        name = 'rows-periodic' if per else 'rows-robin'
        maxerr[name] = max(maxerr.get(name, 0.0), e)
        cov[name] = cov.get(name, 0) + len(rows)
        if not (e <= TOL):
            if per:
                w0, w1 = g.w[k][0], g.w[k][-1]
                unequal = abs(w0 - w1) > 1e-12 * max(w0, w1)
                if unequal:
                    bad.append((KEY_PER, '%s: periodic axis %d with end-cell widths %.6g / %.6g: solver rows do not vanish on the reported (wrapped) ghost values, err %.3g' % (label, k, w0, w1, e)))
                else:
                    bad.append(('rows-vs-wrap/axis%d' % k, '%s: periodic axis %d (equal end cells): boundary rows inconsistent with reported ghosts, err %.3g' % (label, k, e)))
            else:
                bad.append(('rows-vs-ghosts/axis%d' % k, '%s: axis %d boundary rows of boundaryConditionsTerm do not vanish on the reported values, err %.3g' % (label, k, e)))


def interior_consistency(g, phi, spy, bad, maxerr, cov, label):
    """the solved interior and the REPORTED boundary values are mutually consistent: the variable's full value array
    satisfies the interior equations of the system that was solved"""
    M, b, x = spy.last
    rows = interior_index(g.dims)
    xin = np.asarray(phi._value, dtype=float).ravel()
    r = sp.csr_array(M) @ xin - b
    from ..common import absmv
    sc = absmv(M, xin) + np.abs(b)
    sc = sc + (64.0 * len(sc) * np.finfo(float).eps / TOL) * float(np.max(sc))
    e_rows = np.abs(r[rows]) / np.where(sc[rows] > 0, sc[rows], 1.0)
    e = float(np.max(e_rows)) if e_rows.size else 0.0
    maxerr['interior-vs-reported'] = max(maxerr.get('interior-vs-reported', 0.0), e)
    cov['interior_consistency'] = cov.get('interior_consistency', 0) + 1
    # the reported ghosts are recomputed from the boundary relation, the solved ones carry the solver's (norm-wise) backward error
    # divided by the ghost coefficient (1e-3-scaled Dirichlet rows amplify it 2000x): rounding level here is up to ~1e-9, defects
    # give >= 1e-3, so this clause uses 1e-7
    CTOL = 1e-7
    # ... and relative to a boundary row that is tiny next to the interior rows (nanometre cells: D/h^2 ~ 1e16 next to b = 1) the
    # same backward error is amplified by the ratio of the row scales: the clause is evaluated with that allowance and skipped
    # (counted) where the allowance would exceed 1e-4
    full_shape = g.full_shape()
    mask = np.ones(full_shape, dtype=bool)
    mask[tuple(slice(1, -1) for _ in full_shape)] = False
    pos = (absmv(M, xin) + np.abs(b))[np.flatnonzero(mask.ravel())]
    pos = pos[pos > 0]
    amp = float(np.max(absmv(M, xin) + np.abs(b))) / float(np.min(pos)) if pos.size else 1.0
    CTOL = CTOL + 64.0 * len(sc) * np.finfo(float).eps * amp
    if CTOL > 1e-4:
        cov['interior_consistency_skipped_row_scaling'] = cov.get('interior_consistency_skipped_row_scaling', 0) + 1
        return
    if not (e <= CTOL):
        cells = [np.unravel_index(int(i), g.dims) for i in np.flatnonzero(e_rows > CTOL)]
        unequal = [k for k in range(g.nd) if axis_periodic(phi.BCs, k) and abs(g.w[k][0] - g.w[k][-1]) > 1e-12 * max(g.w[k][0], g.w[k][-1])]
        if unequal and all(any(c[k] in (0, g.N[k] - 1) for k in unequal) for c in cells):
            bad.append((KEY_PER, '%s: interior equations next to a periodic boundary with unequal end cells are not satisfied by the reported (wrapped) boundary values, err %.3g' % (label, e)))
        else:
            bad.append(('interior-vs-reported', '%s: the reported values (solved interior + re-imposed boundary values) violate the interior equations that were solved: cells %r, normalised %.3g' % (
                label, [tuple(map(int, c)) for c in cells[:4]], e)))


def plotprofile_check(g, phi, bad, cov):
    out = phi.plotprofile()
    prof = np.asarray(out[-1], dtype=float)
    full = np.asarray(phi._value, dtype=float)
    if prof.shape != full.shape:
        bad.append(('plotprofile/shape', 'plotprofile value array has shape %r' % (prof.shape,)))
        return
    for k in range(g.nd):
        for j in (0, 1):
            gh, it = side_layers(g, full, k, j)
            pg, _ = side_layers(g, prof, k, j)
            ex = 0.5 * (gh + it)
            if nerr(pg, ex, np.abs(gh) + np.abs(it)) > 1e-14:
                bad.append(('plotprofile/axis%d' % k, 'plotprofile boundary entries on axis %d side %d are not the face averages' % (k, j)))
            cov['plotprofile_faces'] = cov.get('plotprofile_faces', 0) + int(gh.size)
        c = np.asarray(out[k]).ravel()
        ex = np.concatenate([[g.faces[k][0]], g.c[k], [g.faces[k][-1]]])
        if c.shape != ex.shape or np.any(np.abs(c - ex) > 1e-14 * (1 + np.abs(ex))):
            bad.append(('plotprofile/coords', 'plotprofile coordinates of axis %d wrong' % k))
    it = tuple(slice(1, -1) for _ in range(g.nd))
    if not np.array_equal(prof[it], full[it]):
        bad.append(('plotprofile/interior', 'plotprofile interior values differ from the variable'))


def run_case(case):
    rng = gen.rng_for(*case['seed'])
    cls = case['cls']
    nmax = case.get('nmax', 4)
    faces, meta, g, spec = build_problem(rng, cls, nmax, case.get('periodic'), geo=case.get('geo'))
    m = gen.build_mesh(pf, cls, faces)
    style = case.get('style', 'mixed')
    vals, ffam = gen.cell_field(rng, g.dims)
    bad, maxerr, cov = [], {}, {}
    cov['cases:' + cls] = 1
    if case.get('geo'):
        cov['geo:' + case['geo']] = 1
    vdt = case.get('valdtype')
    if vdt:
        # interior values handed over as an integer / boolean array (an index field, a 0/1 mask): the boundary values are
        # still real numbers determined by the boundary relation
        vals = (np.round(vals) % 5 - 2).astype({'int64': np.int64, 'int32': np.int32}[vdt]) if vdt != 'bool' else (vals > np.median(vals))
        cov['valdtype:' + vdt] = 1

    def ghosts(phi, label):
        b, me, cv = check_ghosts(g, phi._value, phi.BCs)
        for k_, v_ in me.items():
            maxerr[k_] = max(maxerr.get(k_, 0.0), v_)
        for k_, v_ in cv.items():
            cov[k_] = cov.get(k_, 0) + v_
        cov['op:' + label] = cov.get('op:' + label, 0) + 1
        bad.extend([(m_, label + ': ' + s) for m_, s in b])

    with np.errstate(all='ignore'):
        # (1) construction, both styles
        phi = make_var(m, g, spec, vals, style, rng, 'bc-passed')
        ghosts(phi, 'constructor')
        # "for whatever arrays a, b, c were set": the coefficients the variable holds are the ones that were set (directly or through
        # fixedValue / fixedGradient(scale_coeffs=) / newtonCooling(reverse_direction=))
        for sd_, v_ in spec['sides'].items():
            f_ = getattr(phi.BCs, sd_)
            for nm_ in ('a', 'b', 'c'):
                got_ = np.asarray(getattr(f_, nm_), dtype=float)
                if got_.size != v_[nm_].size or not np.array_equal(got_.reshape(v_[nm_].shape), v_[nm_]):
                    bad.append(('coefficients-not-as-set', 'side %s: coefficient %s is %r after %s, expected %r' % (
                        sd_, nm_, to_list(got_.ravel()[:3]), (v_.get('util') or ('a/b/c assignment',))[0], to_list(v_[nm_].ravel()[:3]))))
            if v_.get('util'):
                cov['bc_via:' + v_['util'][0]] = cov.get('bc_via:' + v_['util'][0], 0) + 1
        phi2 = make_var(m, g, spec, vals, style, rng, 'bc-edited')
        ghosts(phi2, 'apply_BCs')
        cp = phi.copy()
        ghosts(cp, 'copy')
        rows_check(g, phi, bad, maxerr, cov, 'constructor')
        plotprofile_check(g, phi, bad, cov)
        # (1a) coefficients assigned through the property in every shape numpy broadcasting accepts for the face (scalar, full array,
        # row, column, nested list): the stored array is the broadcast one
        ks_ = int(rng.integers(0, g.nd))
        if ks_ not in spec['periodic']:
            fs_ = getattr(cp.BCs, SIDES[ks_][int(rng.integers(0, 2))])
            shp_ = np.shape(fs_.c)
            forms = [('scalar', float(rng.normal()))]
            if len(shp_) == 2 and shp_[0] >= 1 and shp_[1] >= 1:
                forms += [('row', rng.normal(0, 1, (1, shp_[1]))), ('column', rng.normal(0, 1, (shp_[0], 1))), ('vector', rng.normal(0, 1, shp_[1])),
                          ('nested-list', rng.normal(0, 1, (shp_[0], 1)).tolist())]
            else:
                forms += [('full', rng.normal(0, 1, shp_)), ('list', rng.normal(0, 1, shp_).tolist())]
            # ... and whatever their magnitude: trace-level data (3e-9 in SI units) over a stored zero, a value nudged by 2e-6 relative
            forms += [('zero', 0.0), ('tiny-over-zero', float(rng.choice([-1, 1]) * 10 ** rng.uniform(-12, -8.5))),
                      ('one', 1.0), ('nudged', 1.0 + float(rng.choice([-1, 1])) * 2e-6)]
            for nm_f, val_f in forms:
                expect_f = np.broadcast_to(np.asarray(val_f, dtype=float), shp_)
                fs_.c = val_f
                if not np.array_equal(np.asarray(fs_.c, dtype=float), expect_f):
                    bad.append(('coefficients-not-as-set', 'c assigned as %s of shape %r to a face of shape %r is stored as %r instead of its broadcast %r' % (
                        nm_f, np.shape(val_f), shp_, to_list(np.asarray(fs_.c).ravel()[:4]), to_list(expect_f.ravel()[:4]))))
                cov['bc_assign_form:' + nm_f] = cov.get('bc_assign_form:' + nm_f, 0) + 1
            cp.apply_BCs()
            ghosts(cp, 'apply_BCs')
        # (1b) a copy gets boundary data of its own: the original still reports values that satisfy ITS (unchanged) conditions
        ke_ = int(rng.integers(0, g.nd))
        if ke_ not in spec['periodic']:
            getattr(cp.BCs, SIDES[ke_][int(rng.integers(0, 2))]).fixedValue(float(rng.normal()) + 3.0)
            cp.apply_BCs()
            ghosts(cp, 'copy-with-own-BCs')
            ghosts(phi, 'original-after-copy-edit')
        # (2) value edit then apply_BCs
        phi2.value = np.asarray(vals, dtype=float) * 0.5 + 1.0
        phi2.apply_BCs()
        ghosts(phi2, 'apply_BCs')
        # (2b) edits the dirty flags cannot see (documented TrackedArray limitation: fill / copyto), or a replaced BC object,
        # each followed by the explicit apply_BCs() the documentation prescribes
        kq_ = int(rng.integers(0, g.nd))
        if kq_ not in spec['periodic']:
            fq_ = getattr(phi2.BCs, SIDES[kq_][int(rng.integers(0, 2))])
            howq = str(rng.choice(['fill', 'copyto', 'replace-object']))
            if howq == 'fill':
                fq_.c.fill(float(rng.normal()) + 1.5)
            elif howq == 'copyto':
                np.copyto(fq_.c, np.asarray(fq_.c) * 0.5 - 0.9)
            else:
                from copy import deepcopy
                nb_ = deepcopy(phi2.BCs)
                getattr(nb_, SIDES[kq_][0]).c = np.asarray(getattr(nb_, SIDES[kq_][0]).c) * 2.0 + 0.7
                nb_.modified = False
                phi2.BCs = nb_
            phi2.apply_BCs()
            ghosts(phi2, 'apply_BCs-after-untracked-edit')
            rows_check(g, phi2, bad, maxerr, cov, 'apply_BCs after an untracked edit (%s)' % howq)
        # (3) solvePDE
        dt = float(10 ** rng.uniform(-2, 1))
        Dface, _ = gen.face_arrays(rng, g, 'random', positive=True)
        D = gen.facevar(pf, m, Dface)
        terms = [pf.transientTerm(phi, dt, 1.0), -pf.diffusionTerm(D)]
        if rng.random() < 0.5:
            uarr, _ = gen.face_arrays(rng, g, 'sign')
            terms.append(pf.convectionUpwindTerm(gen.facevar(pf, m, [0.2 * a for a in uarr])))
        if rng.random() < 0.5:
            # a bare source vector, in front of or behind the other terms; matrices in any sparse container
            src_ = pf.constantSourceTerm(pf.CellVariable(m, rng.normal(0, 1, g.dims) / dt))
            terms = ([src_] + terms) if rng.random() < 0.6 else (terms + [src_])
            cov['solve_with_bare_source_vector'] = 1
        terms = gen.vary_terms(rng, terms)
        spy = SpySolver()
        solve_with(pf, spy, phi, terms, default_path=bool(case['seed'][-1] % 2))
        ok = bool(np.all(np.isfinite(phi._value[tuple(slice(1, -1) for _ in range(g.nd))])))
        if ok:
            ghosts(phi, 'solvePDE')
            rows_check(g, phi, bad, maxerr, cov, 'solvePDE')
            interior_consistency(g, phi, spy, bad, maxerr, cov, 'solvePDE')
            plotprofile_check(g, phi, bad, cov)
            if rng.random() < 0.5:
                # (3a) the very same term list handed to solvePDE again (sweeps of an iteration re-use the list as it stands)
                for rnd_ in range(2):
                    spy_a = SpySolver()
                    solve_with(pf, spy_a, phi, terms, default_path=bool((case['seed'][-1] + rnd_) % 2))
                    if np.all(np.isfinite(phi._value)):
                        ghosts(phi, 'solvePDE-same-list-again')
                        rows_check(g, phi, bad, maxerr, cov, 'solvePDE of the same term list, call #%d' % (rnd_ + 2))
                        interior_consistency(g, phi, spy_a, bad, maxerr, cov, 'solvePDE of the same term list, call #%d' % (rnd_ + 2))
            # (3b) edit ONE side's coefficients through the public setters (values untouched), solve again
            ke = int(rng.integers(0, g.nd))
            if ke not in spec['periodic']:
                side_e = SIDES[ke][int(rng.integers(0, 2))]
                fe = getattr(phi.BCs, side_e)
                how = str(rng.choice(['c', 'kind', 'elem']))
                if how == 'c':
                    fe.c = np.asarray(fe.c) + 0.75
                elif how == 'kind':
                    if np.all(np.asarray(fe.a) == 0):
                        fe.defaultNoFlux()
                    else:
                        fe.fixedValue(float(rng.normal()))
                else:
                    cc = fe.c
                    cc[(0,) * cc.ndim] = float(cc[(0,) * cc.ndim]) + 1.25
                spy_e = SpySolver()
                terms_e = [pf.transientTerm(phi, dt, 1.0), -pf.diffusionTerm(D)]
                pf.solvePDE(phi, terms_e, externalsolver=spy_e)
                if np.all(np.isfinite(phi._value[tuple(slice(1, -1) for _ in range(g.nd))])):
                    ghosts(phi, 'solvePDE-after-side-edit')
                    rows_check(g, phi, bad, maxerr, cov, 'solvePDE-after-side-edit')
                    interior_consistency(g, phi, spy_e, bad, maxerr, cov, 'solvePDE after editing only side %s (%s)' % (side_e, how))
                    cov['side_edit:' + side_e] = 1
            # (3c) a VIEW of one coefficient array kept by the caller across solves and edited in place before each of them
            kv_ = int(rng.integers(0, g.nd))
            if kv_ not in spec['periodic']:
                side_v = SIDES[kv_][int(rng.integers(0, 2))]
                strip = getattr(phi.BCs, side_v).c[..., 0:2]
                for rnd_ in range(2):
                    strip[...] = np.asarray(strip) + 0.6 + 0.3 * rnd_
                    spy_v = SpySolver()
                    pf.solvePDE(phi, [pf.transientTerm(phi, dt, 1.0), -pf.diffusionTerm(D)], externalsolver=spy_v)
                    if not np.all(np.isfinite(phi._value[tuple(slice(1, -1) for _ in range(g.nd))])):
                        break
                    ghosts(phi, 'solvePDE-after-edit-through-kept-view')
                    interior_consistency(g, phi, spy_v, bad, maxerr, cov, 'solvePDE #%d after editing %s.c through a view kept by the caller' % (rnd_ + 1, side_v))
            # (4) solveExplicitPDE
            rhs = pf.divergenceTerm(D * pf.gradientTerm(phi))
            new = pf.solveExplicitPDE(phi, 1e-3 * dt, rhs)
            if np.all(np.isfinite(new._value[tuple(slice(1, -1) for _ in range(g.nd))])):
                ghosts(new, 'solveExplicitPDE')
                # (4b) variables without a pre-computed boundary term (returned by the explicit solver, or constructed so):
                # implicit solve, edit of one side, implicit solve again - each time ghosts, rows and interior must agree
                var = new if rng.random() < 0.6 else pf.CellVariable(m, vals.copy(), gen.apply_bc_spec(pf.BoundaryConditions(m), g, dict(spec, periodic=[])), BCsTerm_precalc=False)
                if var is not new:
                    apply_flags(var.BCs, g, spec, 'both', rng)
                for rnd in range(3):
                    if rnd:
                        kq = int(rng.integers(0, g.nd))
                        if kq in spec['periodic']:
                            break
                        fq = getattr(var.BCs, SIDES[kq][int(rng.integers(0, 2))])
                        if rnd == 1:
                            fq.c = np.asarray(fq.c) - 0.6
                        elif np.all(np.asarray(fq.a) == 0):
                            fq.defaultNoFlux()
                        else:
                            fq.fixedValue(float(rng.normal()))
                    spy_q = SpySolver()
                    pf.solvePDE(var, [pf.transientTerm(var, dt, 1.0), -pf.diffusionTerm(D)], externalsolver=spy_q)
                    if not np.all(np.isfinite(var._value[tuple(slice(1, -1) for _ in range(g.nd))])):
                        break
                    lab = 'solvePDE #%d on a variable without pre-computed boundary term (%s)' % (rnd + 1, 'from solveExplicitPDE' if var is new else 'BCsTerm_precalc=False')
                    ghosts(var, 'solvePDE-no-precalc')
                    rows_check(g, var, bad, maxerr, cov, lab)
                    interior_consistency(g, var, spy_q, bad, maxerr, cov, lab)
                    cov['no_precalc_round%d' % (rnd + 1)] = cov.get('no_precalc_round%d' % (rnd + 1), 0) + 1
            # (5) scale invariance of (a,b,c)
            lam = float(rng.choice([-3.0, 1e-6, 1e6, 0.37, -1.0]))
            k = int(rng.integers(0, g.nd))
            side = SIDES[k][int(rng.integers(0, 2))]
            spec2 = {'periodic': spec['periodic'], 'sides': {s: {k_: x_ for k_, x_ in v.items() if k_ != 'util'} for s, v in spec['sides'].items()}}
            for nm in ('a', 'b', 'c'):
                spec2['sides'][side][nm] = spec['sides'][side][nm] * lam
            p1 = make_var(m, g, spec, vals, 'both', rng, 'bc-passed')
            p2 = make_var(m, g, spec2, vals, 'both', rng, 'bc-passed')
            t1 = [pf.transientTerm(p1, dt, 1.0), -pf.diffusionTerm(D)]
            t2 = [pf.transientTerm(p2, dt, 1.0), -pf.diffusionTerm(D)]
            s1, s2 = SpySolver(), SpySolver()
            pf.solvePDE(p1, t1, externalsolver=s1)
            pf.solvePDE(p2, t2, externalsolver=s2)
            if np.all(np.isfinite(s1.last[2])) and np.all(np.isfinite(s2.last[2])):
                M2, b2, _ = s2.last
                M1_, b1_, _ = s1.last
                # each solution must satisfy the OTHER system. A solver output carries a norm-wise backward error: relative to a row
                # that is tiny in its own system (a = 1e-3 Neumann row) and dominant in the other one (x 1e6) it shows up amplified
                # (4.9e-9 observed on the unchanged tree) - but only in that direction; a genuine dependence on the factor makes the
                # two solutions differ and shows in both directions, so the smaller of the two residuals decides
                e = min(residual_err(M2, s1.last[2], b2, solver_output=True), residual_err(M1_, s2.last[2], b1_, solver_output=True))
                maxerr['scale-invariance'] = e
                cov['scale_invariance'] = 1
                if not (e <= TOL):
                    bad.append(('scale-invariance', 'multiplying (a,b,c) of side %s by %g changes the solved system: residual of the unscaled solution %.3g' % (side, lam, e)))
            # (6) two unknowns of one model on the same grid (temperature and concentration): each has boundary DATA of its own,
            # they are solved in turn, step after step. Each one's reported boundary values satisfy its own conditions and are
            # consistent with the system that was solved for it.
            if not bad:
                spec3 = {'periodic': spec['periodic'], 'sides': {s: {k_: (np.array(x_, copy=True) if k_ in ('a', 'b', 'c') else x_) for k_, x_ in v.items() if k_ != 'util'} for s, v in spec['sides'].items()}}
                for sd_, v_ in spec3['sides'].items():
                    v_['c'] = v_['c'] * 0.5 + 1.3 * np.where(np.asarray(v_['b']) != 0, np.asarray(v_['b']), 1.0)
                q1 = make_var(m, g, spec, vals, 'both', rng, 'bc-passed')
                q2 = make_var(m, g, spec3, vals * 0.5 + 0.25, 'both', rng, 'bc-passed')
                for rnd_ in range(2):
                    for nm_, q_ in (('first', q1), ('second', q2)):
                        spy_t = SpySolver()
                        solve_with(pf, spy_t, q_, [pf.transientTerm(q_, dt, 1.0), -pf.diffusionTerm(D)], default_path=bool((case['seed'][-1] + rnd_) % 2))
                        if not np.all(np.isfinite(q_._value)):
                            continue
                        lab = 'two variables solved in turn, round %d, %s variable' % (rnd_ + 1, nm_)
                        ghosts(q_, 'solvePDE-two-variables-in-turn')
                        rows_check(g, q_, bad, maxerr, cov, lab)
                        interior_consistency(g, q_, spy_t, bad, maxerr, cov, lab)
        else:
            cov['solve_nonfinite'] = 1
    kv = gen.bc_kind_vector(g, spec)
    key = '%s/%s/%s/%s/%s' % (cls, meta['n'], meta['family'], kv, style)
    sample = {'grid': gen.describe_grid(meta, faces), 'bc': kv, 'periodic_axes': spec['periodic'], 'flag_style': style, 'field': ffam}
    if bad:
        bad = sorted(set(bad))
        unknown = [b for b in bad if b[0] != KEY_PER]
        first = (unknown or bad)[0]
        mech = first[0] if first[0] == KEY_PER else '%s/%s' % (('3D' if g.nd == 3 else '%dD' % g.nd), first[0])
        return {'verdict': 'violated', 'mech': mech, 'key': key, 'cov': cov, 'maxerr': maxerr, 'nontrivial': True,
                'msg': '; '.join(b[1] for b in (unknown or bad))[:700],
                'witness': {'cls': cls, 'faces': [to_list(f) for f in faces], 'periodic': spec['periodic'], 'style': style,
                            'sides': {s: {k: (to_list(v) if k in ('a', 'b', 'c') else (v if k == 'kind' else repr(v))) for k, v in d.items()} for s, d in spec['sides'].items()},
                            'values': to_list(vals)},
                'sample': sample}
    return {'verdict': 'held', 'key': key, 'cov': cov, 'maxerr': maxerr, 'nontrivial': ffam != 'const', 'sample': sample}


def plan(tier, seed):
    import itertools
    per = 6 if tier == 'quick' else 150
    chunks = []
    for ci, cls in enumerate(CLASSES):
        nd = NDIM[cls]
        capable = [k for k in range(nd) if gen.periodic_ok(cls, k)]
        subsets = [list(s) for r in range(len(capable) + 1) for s in itertools.combinations(capable, r)]
        cases = []
        i = 0
        for sub in subsets:
            for style in (['both'] if not sub else ['left', 'right', 'both', 'mixed']):
                for rep in range(per):
                    c_ = {'cls': cls, 'periodic': sub, 'style': style, 'seed': [seed, 3, ci, i], 'nmax': 4 if nd < 3 else 3}
                    if rep % 6 == 4:
                        c_['valdtype'] = ['int64', 'bool', 'int32'][(i // 6) % 3]
                    if rep % 6 == 5 or (rep % 6 == 2 and not sub):
                        c_['geo'] = ['int', 'jitter', 'thinend', 'offset', 'negative', 'wild', 'nano', 'thinend'][(i // 6) % 8]
                    cases.append(c_)
                    i += 1
        if 'pol' in AXKIND[cls] or AXKIND[cls][0] == 'rad':
            # wall-refined grids next to the axis r = 0 / the poles theta = 0, pi (metric factors r, sin(theta) almost vanish there)
            for rep in range(12 if tier == 'quick' else 150):
                cases.append({'cls': cls, 'periodic': [], 'style': 'both', 'seed': [seed, 3, ci, 900000 + rep], 'nmax': 4 if nd < 3 else 3, 'geo': 'thinend'})
        step = 25 if nd == 3 else 50
        for j in range(0, len(cases), step):
            chunks.append(cases[j:j + step])
    return chunks


def floors(agg, tier):
    out = []
    for cls in CLASSES:
        if agg['cov'].get('cases:' + cls, 0) < 6:
            out.append('cases:%s < 6' % cls)
    for k, need in (('bc_assign_form:column', 20), ('bc_assign_form:nested-list', 20), ('op:solvePDE-after-edit-through-kept-view', 100), ('bc_via:fixedValue', 30), ('bc_via:fixedGradient', 30), ('bc_via:newtonCooling', 30), ('op:constructor', 100), ('op:apply_BCs', 100), ('op:original-after-copy-edit', 100), ('op:apply_BCs-after-untracked-edit', 100), ('op:solvePDE', 80), ('op:solveExplicitPDE', 80),
                    ('robin_faces', 1000), ('wrap_faces', 200), ('rows-robin', 500), ('scale_invariance', 80), ('plotprofile_faces', 500), ('interior_consistency', 150),
                    ('valdtype:int64', 10), ('valdtype:bool', 10), ('geo:int', 10), ('geo:jitter', 8), ('geo:nano', 5), ('geo:thinend', 10), ('geo:offset', 8), ('no_precalc_round1', 80), ('no_precalc_round2', 40), ('no_precalc_round3', 40), ('side_edit:left', 5), ('side_edit:right', 5), ('side_edit:bottom', 5), ('side_edit:top', 5), ('side_edit:back', 3), ('side_edit:front', 3)):
        if agg['cov'].get(k, 0) < need:
            out.append('%s < %d' % (k, need))
    return out
