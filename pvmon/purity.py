"""Snapshot machinery for the purity / determinism / aliasing monitors (C15; also used by pvmon.install)."""
import numpy as np
import scipy.sparse as sp

import pyfvtool as pf
from pyfvtool.mesh import MeshStructure
from pyfvtool.boundary import BoundaryConditionsBase, BoundaryFace

from .common import digest


def reach(obj, path='arg', out=None, seen=None, include_cache=True):
    """list of (path, ndarray) reachable from obj (mesh arrays, face components, cell values, BC arrays and flags,
    cached boundary term, sparse triplets, plain arrays, containers)"""
    if out is None:
        out, seen = [], set()
    if obj is None or isinstance(obj, (int, float, str, bool, np.generic)) or callable(obj) and not isinstance(obj, (pf.CellVariable,)):
        return out
    if id(obj) in seen:
        return out
    seen.add(id(obj))
    if isinstance(obj, np.ndarray):
        out.append((path, obj))
    elif sp.issparse(obj):
        for nm in ('data', 'indices', 'indptr'):
            if hasattr(obj, nm):
                out.append((path + '.' + nm, getattr(obj, nm)))
    elif isinstance(obj, MeshStructure):
        for part in ('cellsize', 'cellcenters', 'facecenters'):
            p = getattr(obj, part)
            for ax in ('_x', '_y', '_z'):
                out.append(('%s.%s.%s' % (path, part, ax), getattr(p, ax)))
        for nm in ('dims', 'corners', 'edges'):
            out.append(('%s.%s' % (path, nm), np.asarray(getattr(obj, nm))))
    elif isinstance(obj, pf.FaceVariable):
        for nm in ('_xvalue', '_yvalue', '_zvalue'):
            out.append((path + '.' + nm, np.asarray(getattr(obj, nm))))
        reach(obj.domain, path + '.domain', out, seen)
    elif isinstance(obj, pf.CellVariable):
        out.append((path + '._value', np.asarray(obj._value)))
        out.append((path + '.value.modified', np.asarray([bool(getattr(obj._value, 'modified', False))])))
        reach(obj.BCs, path + '.BCs', out, seen)
        if include_cache and hasattr(obj, '_BCsTerm'):
            reach(obj._BCsTerm, path + '._BCsTerm', out, seen)
        reach(obj.domain, path + '.domain', out, seen)
    elif isinstance(obj, BoundaryConditionsBase):
        for side in ('left', 'right', 'bottom', 'top', 'back', 'front'):
            reach(getattr(obj, side), '%s.%s' % (path, side), out, seen)
        reach(obj.domain, path + '.domain', out, seen)
    elif isinstance(obj, BoundaryFace):
        for nm in ('_a', '_b', '_c'):
            out.append((path + '.' + nm, np.asarray(getattr(obj, nm))))
        out.append((path + '._periodic', np.asarray([bool(obj._periodic)])))
        # hidden state: the dirty flags that the solvers trust (a pure builder must not reset or raise them)
        out.append((path + '.modified_flags', np.asarray([bool(getattr(getattr(obj, nm), 'modified', False)) for nm in ('_a', '_b', '_c')])))
    elif isinstance(obj, (list, tuple)):
        for i, o in enumerate(obj):
            reach(o, '%s[%d]' % (path, i), out, seen)
    elif isinstance(obj, dict):
        for k, o in obj.items():
            reach(o, '%s[%r]' % (path, k), out, seen)
    return out


def snapshot(objs, visible_only_for=()):
    """dict path -> digest for everything reachable from the list of objects.
    For objects listed in visible_only_for (CellVariables that a solver may legitimately refresh: ghost layer and
    cached boundary term) only the visible state (interior values + BC arrays/flags) is recorded."""
    snap = {}
    for i, o in enumerate(objs):
        if any(o is v for v in visible_only_for):
            snap['arg%d.value' % i] = digest(np.asarray(o.value))
            for p, a in reach(o.BCs, 'arg%d.BCs' % i):
                if p.endswith('.modified_flags'):
                    continue            # a solver may legitimately reset the dirty flags of the variable it is given
                snap[p] = digest(a)
            continue
        for p, a in reach(o, 'arg%d' % i):
            snap[p] = digest(a)
    return snap


def diff_snap(a, b):
    """paths whose content changed, plus paths that appeared or disappeared (e.g. a caller's list that grew)"""
    changed = [k for k in a if k in b and a[k] != b[k]]
    changed += ['+' + k for k in b if k not in a]
    changed += ['-' + k for k in a if k not in b]
    return sorted(changed)


def canon(obj):
    """canonical digest of a returned object for the determinism check"""
    if sp.issparse(obj):
        return digest(obj)
    if isinstance(obj, pf.FaceVariable):
        return digest(obj._xvalue, obj._yvalue, obj._zvalue)
    if isinstance(obj, pf.CellVariable):
        return digest(np.asarray(obj._value), *[a for _, a in reach(obj.BCs, 'b')])
    if isinstance(obj, np.ndarray):
        return digest(obj)
    if isinstance(obj, (tuple, list)):
        return tuple(canon(o) for o in obj)
    if isinstance(obj, BoundaryConditionsBase):
        return digest(*[a for _, a in reach(obj, 'b')])
    return repr(obj)


def returned_arrays(obj):
    return [a for _, a in reach(obj, 'ret', include_cache=True) if isinstance(a, np.ndarray)]


def aliases(ret, mesh_objs):
    """names of mesh arrays that a returned array shares memory with"""
    hits = []
    mesh_arrs = []
    for mo in mesh_objs:
        mesh_arrs += reach(mo, 'mesh')
    # arrays of the returned object that legitimately ARE the mesh (ret.domain is the mesh itself) are excluded
    ret_arrs = []
    for p, a in reach(ret, 'ret'):
        if '.domain.' in p:
            continue
        ret_arrs.append((p, a))
    for pr, ar in ret_arrs:
        if not isinstance(ar, np.ndarray) or ar.size == 0:
            continue
        for pm, am in mesh_arrs:
            if am.size and np.shares_memory(ar, am):
                hits.append('%s aliases %s' % (pr, pm))
    return hits
