"""Boundary relation oracle (C03, reused by C09/C12/C14): for every boundary face,
a*(phi_hi - phi_lo)/(h_k*delta) + b*(phi_hi + phi_lo)/2 = c   (positive coordinate direction),
periodic axes: ghost layer = wrap of the opposite interior layer."""
import numpy as np

from .oracles import SIDES
from .common import nerr


def side_layers(g, full, k, j):
    """(ghost, interior) layers of side j (0 low / 1 high) of axis k, restricted to interior cells of the
    other axes; returned with the side's coefficient shape."""
    full = np.asarray(full, dtype=float).reshape(g.full_shape())      # boundary values are numbers whatever dtype stores them
    gi = [slice(1, -1)] * g.nd
    ii = [slice(1, -1)] * g.nd
    gi[k] = 0 if j == 0 else -1
    ii[k] = 1 if j == 0 else -2
    gh, it = full[tuple(gi)], full[tuple(ii)]
    if g.nd == 1:
        gh, it = np.reshape(gh, (1,)), np.reshape(it, (1,))
    return gh, it


def side_h(g, k):
    h = np.broadcast_to(g.hscale(k), g.dims)
    idx = [slice(None)] * g.nd
    idx[k] = 0
    h = h[tuple(idx)]
    if g.nd == 1:
        h = np.ones(1)
    return h


def axis_periodic(BC, k):
    return bool(getattr(BC, SIDES[k][0]).periodic or getattr(BC, SIDES[k][1]).periodic)


def coeff(face, name, shape):
    a = np.asarray(getattr(face, name), dtype=float)
    return np.broadcast_to(a.reshape(shape) if a.size == int(np.prod(shape)) else a, shape)


def check_ghosts(g, full, BC, tol=1e-9):
    """returns (violations list[(mech,msg)], maxerr dict, counters dict)"""
    bad = []
    maxerr = {}
    cov = {}
    for k in range(g.nd):
        per = axis_periodic(BC, k)
        for j, side in enumerate(SIDES[k]):
            gh, it = side_layers(g, full, k, j)
            if per:
                _, opp = side_layers(g, full, k, 1 - j)
                cov['wrap_faces'] = cov.get('wrap_faces', 0) + int(gh.size)
                if not np.array_equal(gh, opp):
                    bad.append(('wrap/' + ('axis%d' % k), 'periodic axis %d: %s ghost layer is not the wrap of the opposite interior layer (max diff %.3g)' % (
                        k, side, float(np.max(np.abs(gh - opp))))))
                continue
            face = getattr(BC, side)
            sh = g.side_shape(k)
            a, b, c = coeff(face, 'a', sh), coeff(face, 'b', sh), coeff(face, 'c', sh)
            h = side_h(g, k)
            delta = g.w[k][0] if j == 0 else g.w[k][-1]
            lo, hi = (gh, it) if j == 0 else (it, gh)
            lhs = a * (hi - lo) / (h * delta) + b * (hi + lo) / 2
            scale = np.abs(a / (h * delta)) * (np.abs(hi) + np.abs(lo)) + np.abs(b) * (np.abs(hi) + np.abs(lo)) / 2 + np.abs(c)
            e = nerr(lhs, c, scale)
            maxerr['robin'] = max(maxerr.get('robin', 0.0), e)
            cov['robin_faces'] = cov.get('robin_faces', 0) + int(gh.size)
            if not (e <= tol):
                d = np.abs(lhs - c) / np.where(scale > 0, scale, 1)
                d = np.where(np.isfinite(d), d, np.inf)
                i = np.unravel_index(int(np.argmax(d)), d.shape)
                bad.append(('relation/axis%d' % k, '%s face %r: a*dphi/dn + b*phi = %.12g but c = %.12g (a=%.6g b=%.6g ghost=%.12g interior=%.12g, normalised error %.3g)' % (
                    side, tuple(map(int, i)), lhs[i], c[i], a[i], b[i], gh[i], it[i], e)))
    return bad, maxerr, cov
