"""pvmon - runtime monitors for PyFVTool's semantic properties C01..C17.

The real pyfvtool code from /repo/src (current working tree) is executed under
generated workloads; the monitors in pvmon.props.* observe every call and decide
each property per execution (held / violated / inconclusive).
"""
import os
import sys

# /repo/src always, except in tools/selftest.py which points the monitors at a scratch worktree carrying a mutant
REPO_SRC = os.environ.get('PVMON_REPO_SRC', '/repo/src')
VERIF_DIR = os.path.dirname(os.path.dirname(os.path.abspath(__file__)))


def pin_paths():
    """Make sure `pyfvtool` is imported from /repo/src of the current tree."""
    if REPO_SRC not in sys.path[:2]:
        sys.path.insert(0, REPO_SRC)
    deps = os.path.join(VERIF_DIR, '.deps')
    if os.path.isdir(deps) and deps not in sys.path:
        sys.path.append(deps)
    import pyfvtool
    real = os.path.realpath(pyfvtool.__file__)
    if not real.startswith(REPO_SRC + '/'):
        raise RuntimeError('pyfvtool imported from %s, not from %s' % (real, REPO_SRC))
    return pyfvtool
