"""Runner: fans cases out over worker processes, merges what the monitors
observed, applies the committed known-findings list, writes evidence/<ID>.json,
prints KNOWN-FINDING / VIOLATION / INCONCLUSIVE lines and sets the exit code.

Exit codes: 0 = held on everything explored (known findings are reported, not alarms)
            1 = violation not listed in known_findings.json
            2 = inconclusive (coverage floor not met, worker died, watchdog) - never
                expected on the unchanged tree; exists so that a broken harness
                cannot pass as "held".
"""
import argparse
import importlib
import json
import os
import signal
import sys
import time
import traceback
from collections import Counter
from concurrent.futures import ProcessPoolExecutor, as_completed

from . import VERIF_DIR, pin_paths

CASE_WATCHDOG_S = 120.0   # per case; firing = inconclusive, never a violation


class CaseTimeout(Exception):
    pass


def _alarm(signum, frame):
    raise CaseTimeout()


def jsonable(o):
    import numpy as np
    if isinstance(o, dict):
        return {str(k): jsonable(v) for k, v in o.items()}
    if isinstance(o, (list, tuple)):
        return [jsonable(v) for v in o]
    if isinstance(o, np.ndarray):
        return jsonable(o.tolist())
    if isinstance(o, (np.floating,)):
        return jsonable(float(o))
    if isinstance(o, (np.integer,)):
        return int(o)
    if isinstance(o, (np.bool_,)):
        return bool(o)
    if isinstance(o, float):
        if o != o:
            return 'nan'
        if o in (float('inf'), float('-inf')):
            return 'inf' if o > 0 else '-inf'
        return o
    if isinstance(o, (str, int, bool)) or o is None:
        return o
    return repr(o)


def run_one(mod, case):
    """Run one case under the watchdog; returns a record dict."""
    signal.signal(signal.SIGALRM, _alarm)
    signal.setitimer(signal.ITIMER_REAL, CASE_WATCHDOG_S)
    from . import gen as _gen
    d0 = dict(_gen.DECOY_STATS)
    try:
        rec = mod.run_case(case)
        if isinstance(rec, dict) and isinstance(rec.get('cov'), dict):
            for k_ in ('built', 'failed', 'built_reversed'):
                if _gen.DECOY_STATS.get(k_, 0) > d0.get(k_, 0):
                    rec['cov']['sibling_grid_warmups_' + k_] = _gen.DECOY_STATS.get(k_, 0) - d0.get(k_, 0)
    except CaseTimeout:
        rec = {'verdict': 'inconclusive', 'key': 'watchdog', 'nontrivial': False,
               'msg': 'per-case watchdog fired'}
    except Exception as e:
        tb = traceback.extract_tb(e.__traceback__)
        from . import REPO_SRC
        # who raised: the innermost frame that belongs either to the library or to the monitoring code decides (an exception
        # coming out of numpy / scipy is the library's if the library made that call, ours if we did)
        lib_root = os.path.realpath(REPO_SRC) + os.sep
        own_root = os.path.dirname(os.path.realpath(__file__)) + os.sep
        inner, where = '', None
        for fr in reversed(tb):
            rp_ = os.path.realpath(fr.filename)
            if rp_.startswith(lib_root) or rp_.startswith(own_root):
                inner, where = rp_, fr
                break
        if where is not None:
            tb = list(tb[:tb.index(where) + 1])
        if inner.startswith(lib_root):
            # raised by the library itself while executing a call every property presupposes to complete (the generators
            # only produce documented, valid inputs; on the unchanged tree this never happens): the property cannot hold
            rec = {'verdict': 'violated', 'mech': 'library-exception/%s' % type(e).__name__, 'key': 'library-exception', 'nontrivial': True,
                   'msg': 'the library raised %s: %s at %s:%d (%s) during a valid call' % (type(e).__name__, str(e)[:200], os.path.basename(inner), tb[-1].lineno, tb[-1].name),
                   'witness': {'case': case, 'trace': traceback.format_exc()[-1500:]}}
        else:   # harness error: never a verdict on the code
            rec = {'verdict': 'inconclusive', 'key': 'harness-error', 'nontrivial': False,
                   'msg': 'harness exception: %s: %s' % (type(e).__name__, e),
                   'trace': traceback.format_exc()[-2000:]}
    finally:
        signal.setitimer(signal.ITIMER_REAL, 0)
    return rec


def run_chunk(mod_name, chunk):
    pin_paths()
    import numpy as np
    np.seterr(all='ignore')
    always_on = bool(os.environ.get('PVMON_INSTALL'))
    if always_on:
        from . import install as _inst
        _inst.install()
        _inst.STATE['violations'] = []
        _inst.STATE['counters'].clear()
    mod = importlib.import_module(mod_name)
    cases = mod.expand(chunk) if hasattr(mod, 'expand') else chunk
    out = {'n': 0, 'held': 0, 'violated': 0, 'inconclusive': 0, 'keys': set(),
           'cov': Counter(), 'maxerr': {}, 'violations': [], 'samples': [],
           'inconcl': [], 'extra': {}}
    for case in cases:
        rec = run_one(mod, case)
        out['n'] += 1
        v = rec.get('verdict', 'inconclusive')
        out[v] += 1
        if rec.get('nontrivial', True) and v != 'inconclusive':
            out['keys'].add(rec.get('key', ''))
        for k, n in rec.get('cov', {}).items():
            out['cov'][k] += n
        for k, e in rec.get('maxerr', {}).items():
            if e == e and e > out['maxerr'].get(k, -1.0):
                out['maxerr'][k] = e
        if v == 'violated':
            if len(out['violations']) < 40:
                out['violations'].append({'case': case, 'mech': rec.get('mech', 'unclassified'),
                                          'msg': rec.get('msg', ''),
                                          'witness': rec.get('witness', {})})
            else:
                out['extra']['violations_dropped'] = out['extra'].get('violations_dropped', 0) + 1
            out['cov']['mech:' + rec.get('mech', 'unclassified')] += 1
        if v == 'inconclusive' and rec.get('key') == 'harness-error':
            out['cov']['harness_errors'] += 1
        if v == 'inconclusive' and len(out['inconcl']) < 5:
            out['inconcl'].append({'case': case, 'msg': rec.get('msg', ''), 'trace': rec.get('trace', '')})
        if len(out['samples']) < 2 and rec.get('sample') is not None:
            out['samples'].append(rec['sample'])
    out['keys'] = sorted(out['keys'])
    out['cov'] = dict(out['cov'])
    if always_on:
        out['always_on'] = _inst.summary()
    return jsonable(out)


ALWAYS_ON_PROPS = ('C03', 'C04', 'C10', 'C13', 'C15')
FEEDERS = ('c01', 'c03', 'c04', 'c05', 'c06', 'c07', 'c08', 'c09', 'c11', 'c12', 'c14', 'c17')


def merge_always_on(pid, summ, agg, source):
    for k, n in summ.get('counters', {}).items():
        if k.startswith(pid + ':'):
            agg['cov']['always_on[%s]:%s' % (source, k[len(pid) + 1:])] += n
    if summ.get('counters', {}).get('monitor_errors'):
        agg['cov']['always_on[%s]:monitor_errors' % source] += summ['counters']['monitor_errors']
    for v in summ.get('violations', []):
        if v.get('property') != pid:
            continue
        mech = 'always-on/' + v['mech']
        agg['violated'] += 1
        agg['n'] += 1
        agg['cov']['mech:' + mech] += 1
        if len(agg['violations']) < 200:
            agg['violations'].append({'case': {'always_on_source': source}, 'mech': mech, 'msg': v['msg'], 'witness': {'source': source}})


def always_on_extras(pid, seed, jobs, agg, harness_problem):
    """thorough tier of the always-on properties: (1) the quick workloads of the OTHER properties are executed with the
    monitor layer attached (pvmon.install) and everything the pid-monitors observe there is merged; (2) the repository's
    own test-suite is run under the monitor layer from a scratch copy outside /repo and /verif."""
    import shutil
    import subprocess
    import tempfile
    os.environ['PVMON_INSTALL'] = '1'
    try:
        with ProcessPoolExecutor(max_workers=jobs) as ex:
            futs = {}
            for fm in FEEDERS:
                if fm == pid.lower():
                    continue
                m = importlib.import_module('pvmon.props.' + fm)
                for ch in m.plan('quick', seed):
                    futs[ex.submit(run_chunk, 'pvmon.props.' + fm, ch)] = fm
            for fut in as_completed(futs, timeout=3 * 3600):
                try:
                    r = fut.result()
                except Exception as e:
                    harness_problem.append('always-on feeder %s: %s: %s' % (futs[fut], type(e).__name__, e))
                    continue
                agg['cov']['always_on_feeder_cases'] += r['n']
                merge_always_on(pid, r.get('always_on', {}), agg, 'workloads')
    finally:
        os.environ.pop('PVMON_INSTALL', None)
    scratch = tempfile.mkdtemp(prefix='pvmon_tests_')
    try:
        from . import REPO_SRC
        repo_root = os.path.dirname(REPO_SRC)
        shutil.copytree(os.path.join(repo_root, 'tests'), os.path.join(scratch, 'tests'))
        for extra in ('pytest.ini',):
            if os.path.exists(os.path.join(repo_root, extra)):
                shutil.copy(os.path.join(repo_root, extra), scratch)
        outp = os.path.join(scratch, 'pvmon_out.json')
        env = dict(os.environ, PVMON_OUT=outp, PYFVTOOL_VERIF='1', MPLBACKEND='Agg')
        r = subprocess.run([sys.executable, '-B', '-m', 'pytest', '-q', '-p', 'no:cacheprovider', '-p', 'pvmon.pytest_plugin', '--timeout=900',
                            '--continue-on-collection-errors', 'tests'], cwd=scratch, env=env, capture_output=True, text=True, timeout=3600)
        if os.path.exists(outp):
            with open(outp) as f:
                summ = json.load(f)
            agg['cov']['repo_tests_under_monitors:collected'] += int(summ.get('tests_collected') or 0)
            agg['cov']['repo_tests_under_monitors:failed'] += int(summ.get('tests_failed') or 0)
            merge_always_on(pid, summ, agg, 'repo-tests')
        else:
            harness_problem.append('repo tests under monitors produced no summary: %s' % r.stdout[-300:])
    except Exception as e:
        harness_problem.append('repo tests under monitors: %s: %s' % (type(e).__name__, e))
    finally:
        shutil.rmtree(scratch, ignore_errors=True)


def load_known():
    p = os.path.join(VERIF_DIR, 'known_findings.json')
    if not os.path.exists(p):
        return []
    with open(p) as f:
        return json.load(f).get('findings', [])


def main(argv=None):
    ap = argparse.ArgumentParser()
    ap.add_argument('prop')
    ap.add_argument('--tier', default=os.environ.get('VERIF_TIER', 'quick'), choices=['quick', 'thorough'])
    ap.add_argument('--seed', type=int, default=int(os.environ.get('VERIF_SEED', '0')))
    ap.add_argument('--replay', default=None)
    ap.add_argument('--jobs', type=int, default=int(os.environ.get('VERIF_JOBS', '0')))
    ap.add_argument('--budget', type=float, default=None, help='wall-clock budget (s) for the whole run; exceeding it = inconclusive')
    args = ap.parse_args(argv)
    pid = args.prop.upper()
    pin_paths()
    import numpy as np
    np.seterr(all='ignore')
    mod_name = 'pvmon.props.' + pid.lower()
    mod = importlib.import_module(mod_name)
    known = [k for k in load_known() if k.get('property') == pid and k.get('status', 'known') == 'known']
    known_keys = {k['key']: k for k in known}

    if args.replay:
        with open(args.replay) as f:
            w = json.load(f)
        case = w['case']
        rec = run_one(mod, case)
        print(json.dumps(jsonable({k: v for k, v in rec.items() if k not in ('sample',)}), indent=1)[:6000])
        if rec.get('verdict') == 'violated':
            mech = rec.get('mech', 'unclassified')
            if mech in known_keys:
                print('KNOWN-FINDING: property=%s %s %s' % (pid, mech, known_keys[mech].get('what', '')))
                return 0
            print('VIOLATION property=%s replay=%s' % (pid, args.replay))
            return 1
        return 0 if rec.get('verdict') == 'held' else 2

    t0 = time.time()
    chunks = mod.plan(args.tier, args.seed)
    jobs = args.jobs or min(16, os.cpu_count() or 1)
    budget = args.budget or getattr(mod, 'BUDGET_S', {}).get(args.tier, 3600.0 if args.tier == 'quick' else 6 * 3600.0)
    agg = {'n': 0, 'held': 0, 'violated': 0, 'inconclusive': 0, 'keys': set(), 'cov': Counter(),
           'maxerr': {}, 'violations': [], 'samples': [], 'inconcl': [], 'extra': Counter()}
    harness_problem = []
    with ProcessPoolExecutor(max_workers=jobs) as ex:
        futs = {ex.submit(run_chunk, mod_name, ch): i for i, ch in enumerate(chunks)}
        try:
            for fut in as_completed(futs, timeout=budget):
                try:
                    r = fut.result()
                except Exception as e:
                    harness_problem.append('chunk %d: %s: %s' % (futs[fut], type(e).__name__, e))
                    continue
                for k in ('n', 'held', 'violated', 'inconclusive'):
                    agg[k] += r[k]
                agg['keys'].update(r['keys'])
                agg['cov'].update(r['cov'])
                for k, e in r['maxerr'].items():
                    if isinstance(e, (int, float)) and e > agg['maxerr'].get(k, -1.0):
                        agg['maxerr'][k] = e
                agg['violations'].extend(r['violations'])
                if len(agg['samples']) < 8:
                    agg['samples'].extend(r['samples'][:1])
                agg['inconcl'].extend(r['inconcl'][:2])
                agg['extra'].update(r.get('extra', {}))
        except Exception as e:  # TimeoutError of as_completed
            harness_problem.append('run budget exceeded or pool failure: %s: %s' % (type(e).__name__, e))
            for f in futs:
                f.cancel()
    if args.tier == 'thorough' and pid in ALWAYS_ON_PROPS and not os.environ.get('PVMON_NO_ALWAYS_ON'):
        always_on_extras(pid, args.seed, jobs, agg, harness_problem)
    wall = time.time() - t0

    # classify violations
    by_mech = {}
    for v in agg['violations']:
        by_mech.setdefault(v['mech'], []).append(v)
    mech_counts = {k[5:]: n for k, n in agg['cov'].items() if k.startswith('mech:')}
    new_mechs = [m for m in mech_counts if m not in known_keys]
    rdir = os.path.join(os.environ.get('PVMON_OUT_DIR', VERIF_DIR), 'replay', pid)
    lines = []
    replay_written = {}
    if by_mech:
        os.makedirs(rdir, exist_ok=True)
    for mech, vs in sorted(by_mech.items()):
        path = os.path.join(rdir, '%s_%s_seed%d.json' % (args.tier, ''.join(c if c.isalnum() else '_' for c in mech)[:80], args.seed))
        with open(path, 'w') as f:
            json.dump(jsonable({'property': pid, 'mech': mech, 'case': vs[0]['case'], 'msg': vs[0]['msg'],
                                'witness': vs[0]['witness'], 'count_in_run': mech_counts.get(mech, len(vs))}), f, indent=1)
        replay_written[mech] = path
    for mech in sorted(mech_counts):
        if mech in known_keys:
            lines.append('KNOWN-FINDING: property=%s %s (%d cases) %s' % (pid, mech, mech_counts[mech], known_keys[mech].get('what', '')))
        else:
            lines.append('VIOLATION property=%s replay=%s mech=%s count=%d msg=%s' % (
                pid, replay_written.get(mech, '(witness dropped)'), mech, mech_counts[mech],
                (by_mech.get(mech, [{}])[0].get('msg', ''))[:300]))

    floors_unmet = []
    if hasattr(mod, 'floors'):
        floors_unmet = list(mod.floors(agg, args.tier))
    if agg['n'] == 0:
        floors_unmet.append('no case executed')
    n_dist = len(agg['keys'])
    if n_dist < 2:
        floors_unmet.append('fewer than 2 distinct non-trivial cases')

    ev = {
        'property_id': pid, 'tier': args.tier, 'seed': args.seed, 'level': 'exploration',
        'coverage': {
            'evaluations': agg['n'],
            'distinct_nontrivial': n_dist,
            'rule': getattr(mod, 'RULE', ''),
            'samples': agg['samples'][:8] or [{'note': 'no sample recorded'}],
            'held': agg['held'], 'violated': agg['violated'], 'inconclusive': agg['inconclusive'],
            'monitor_counters': {k: v for k, v in sorted(agg['cov'].items()) if not k.startswith('mech:')},
            'max_normalised_error_per_identity': agg['maxerr'],
            'known_findings_reobserved': {m: mech_counts[m] for m in mech_counts if m in known_keys},
            'new_violation_mechanisms': {m: mech_counts[m] for m in new_mechs},
            'coverage_floors_unmet': floors_unmet,
            'inconclusive_examples': [{'msg': i['msg'], 'case': i['case']} for i in agg['inconcl'][:5]],
            'harness_problems': harness_problem,
            'exhaustive': bool(getattr(mod, 'EXHAUSTIVE', {}).get(args.tier, False)),
        },
        'assumptions': list(getattr(mod, 'ASSUMPTIONS', [])),
        'wall_s': round(wall, 2),
        'violations': sum(mech_counts[m] for m in new_mechs),
    }
    evdir = os.path.join(os.environ.get('PVMON_OUT_DIR', VERIF_DIR), 'evidence')
    os.makedirs(evdir, exist_ok=True)
    with open(os.path.join(evdir, pid + '.json'), 'w') as f:
        json.dump(jsonable(ev), f, indent=1)

    for ln in lines:
        print(ln)
    if os.environ.get('VERIF_DEBUG'):
        for v in agg['violations']:
            print('  DEBUG', v['mech'], '|', v['msg'][:400])
    print('%s tier=%s seed=%d cases=%d held=%d violated=%d (known %d) inconclusive=%d distinct=%d wall=%.1fs' % (
        pid, args.tier, args.seed, agg['n'], agg['held'], agg['violated'],
        sum(mech_counts[m] for m in mech_counts if m in known_keys), agg['inconclusive'], n_dist, wall))
    if new_mechs:
        return 1
    if agg['cov'].get('harness_errors', 0):
        harness_problem.append('%d cases ended in an exception of the monitoring code itself (no verdict)' % agg['cov']['harness_errors'])
    if harness_problem or floors_unmet:
        for h in harness_problem:
            print('INCONCLUSIVE property=%s %s' % (pid, h))
        for fl in floors_unmet:
            print('INCONCLUSIVE property=%s coverage floor not met: %s' % (pid, fl))
        for i in agg['inconcl'][:3]:
            print('  inconclusive example: %s %s' % (i['msg'], i.get('trace', '')[-600:]))
        return 2
    # too many inconclusive cases is itself inconclusive
    if agg['inconclusive'] > max(5, 0.2 * agg['n']):
        print('INCONCLUSIVE property=%s %d of %d cases inconclusive' % (pid, agg['inconclusive'], agg['n']))
        for i in agg['inconcl'][:3]:
            print('  inconclusive example: %s %s' % (i['msg'], i.get('trace', '')[-600:]))
        return 2
    return 0


if __name__ == '__main__':
    sys.exit(main())
