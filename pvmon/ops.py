"""Helpers around the real term builders: interior rows as dense blocks, chain evaluation on a basis,
divergence-free velocity families (verified discretely by the monitors that use them)."""
import numpy as np
import scipy.sparse as sp

import pyfvtool as pf

from . import gen
from .oracles import Geom, _bc, AXKIND
from .common import interior_index


def interior_rows_dense(M, g):
    """dense (n_interior x n_full) block of interior-cell rows of a term matrix"""
    M = sp.csr_array(M)
    rows = interior_index(g.dims)
    return M[rows, :].toarray()


def chain_matrix(fn, m, g):
    """dense matrix of a linear map phi(full) -> flat full-length vector, built on the full basis of unit
    fields; returns interior rows only (n_interior x n_full)."""
    nfull = int(np.prod(g.full_shape()))
    rows = interior_index(g.dims)
    E = np.zeros((len(rows), nfull))
    for j in range(nfull):
        e = np.zeros(nfull)
        e[j] = 1.0
        phi = pf.CellVariable(m, e.reshape(g.full_shape()))
        E[:, j] = np.asarray(fn(phi)).ravel()[rows]
    return E


def entry_err(A, B, rowfloor=1e-3):
    """max entrywise |A-B| / (|A_ij| + |B_ij| + rowfloor * max_j(|A_ij|+|B_ij|)).

    The row-wise floor is the natural scale of an entry that is itself a sum of cancelling contributions (e.g. a
    central-scheme diagonal (ue*DXe - uw*DXw)/DXp that cancels to rounding): -4e-16 against an exact 0 must not alarm,
    while an O(1) relative defect in any entry larger than ~1e-12 of its row's largest entry still exceeds 1e-9."""
    d = np.abs(A - B)
    s = np.abs(A) + np.abs(B)
    if not np.all(np.isfinite(d)):
        return float('inf')
    if s.ndim == 2 and s.shape[1] > 0:
        s = s + rowfloor * s.max(axis=1, keepdims=True)
    with np.errstate(all='ignore'):
        e = np.where(d == 0, 0.0, d / np.where(s > 0, s, 1.0))
    return float(e.max()) if e.size else 0.0


def row_err(A, B, x):
    """normalised row error of (A-B) x with scale (|A|+|B|)|x|"""
    d = np.abs((A - B) @ x)
    s = (np.abs(A) + np.abs(B)) @ np.abs(x)
    if not np.all(np.isfinite(d)):
        return float('inf')
    with np.errstate(all='ignore'):
        e = np.where(d == 0, 0.0, d / np.where(s > 0, s, 1.0))
    return float(e.max()) if e.size else 0.0


# ---------------------------------------------------------------------------
# divergence-free velocity families

def code_areas(g, k):
    """face areas consistent with the measure the library's operators divide by (exact geometry except
    SphericalGrid3D, where the operators use the midpoint measure r_p^2 sin(theta_p) dr dtheta dphi)"""
    return g.area(k, 'midpoint' if g.cls == 'SphericalGrid3D' else 'exact')


def stream_flow(rng, g, periodic_axes=(), amp=1.0, walls=True):
    """discrete curl of an edge potential: face fluxes (area*velocity) sum to zero in every cell.
    Potential vanishes on non-periodic boundaries (walls=True) so the wall-normal velocity is 0.
    Returns per-axis face velocity arrays, or None if some face area is zero where a non-zero flux is needed."""
    nd = g.nd
    if nd == 1:
        return None
    flux = [np.zeros(g.face_shape(k)) for k in range(nd)]
    pairs = [(0, 1)] if nd == 2 else [(0, 1), (0, 2), (1, 2)]
    for (a, b) in pairs:
        # potential on corners of axes (a,b), cells of the remaining axis
        sh = list(g.dims)
        sh[a] += 1
        sh[b] += 1
        P = rng.normal(0, 1, sh) * amp
        for ax in (a, b):
            idx0 = [slice(None)] * nd
            idx1 = [slice(None)] * nd
            idx0[ax] = 0
            idx1[ax] = -1
            if ax in periodic_axes:
                P[tuple(idx1)] = P[tuple(idx0)]
            elif walls:
                P[tuple(idx0)] = 0.0
                P[tuple(idx1)] = 0.0
        # flux through a-faces: +d_b P ; through b-faces: -d_a P
        hi = [slice(None)] * nd
        lo = [slice(None)] * nd
        hi[b] = slice(1, None)
        lo[b] = slice(0, -1)
        flux[a] += P[tuple(hi)] - P[tuple(lo)]
        hi = [slice(None)] * nd
        lo = [slice(None)] * nd
        hi[a] = slice(1, None)
        lo[a] = slice(0, -1)
        flux[b] -= P[tuple(hi)] - P[tuple(lo)]
    u = []
    for k in range(nd):
        A = code_areas(g, k)
        with np.errstate(all='ignore'):
            uk = np.where(A > 0, flux[k] / np.where(A > 0, A, 1.0), 0.0)
        if np.any((A <= 0) & (np.abs(flux[k]) > 0)):
            # a face of zero area (r = 0 axis, pole) cannot carry flux: zero the potential difference there
            return None
        u.append(uk)
    return u


def radial_flow(g, q):
    """u_r = q/r (cylindrical, polar) or q/r^2 (spherical); None if the grid touches r = 0"""
    if AXKIND[g.cls][0] != 'rad' or g.faces[0][0] == 0.0:
        return None
    p = 2 if g.cls in ('SphericalGrid1D', 'SphericalGrid3D') else 1
    u = [np.zeros(g.face_shape(k)) for k in range(g.nd)]
    u[0] = np.broadcast_to(_bc(q / g.faces[0] ** p, 0, g.nd), g.face_shape(0)).copy()
    return u


def uniform_flow(rng, g):
    """uniform Cartesian velocity vector (any sign per axis); only divergence-free on Cartesian grids"""
    if not g.cls.startswith('Grid'):
        return None
    return [np.full(g.face_shape(k), float(rng.choice([-1.0, 1.0]) * 10 ** rng.uniform(-1, 1))) for k in range(g.nd)]


def axis_flow(rng, g, k=None):
    """flow along one non-radial coordinate k whose flux A_k*u_k does not vary along k (so every cell's in- and out-flux
    through its two k-faces cancel): u_k = G(other coordinates) / a_k(q_k), where a_k is the part of the face area that
    varies along k (1 except for the polar angle of SphericalGrid3D, a_theta ~ sin(theta_f)).  Examples: axial flow in
    cylindrical grids, rigid rotation u_theta = w(r) in polar grids, zonal flow u_phi(r, theta) on the sphere."""
    cand = [j for j in range(g.nd) if AXKIND[g.cls][j] != 'rad']
    if g.cls == 'SphericalGrid3D':
        cand = [j for j in cand if j != 1 or (np.all(np.sin(g.faces[1]) > 1e-3))]
    if not cand:
        return None, None
    k = int(rng.choice(cand)) if k is None else k
    A = code_areas(g, k)
    # flux constant along k: take the flux profile of the first face layer, repeat it along k
    first = [slice(None)] * g.nd
    first[k] = slice(0, 1)
    Gprof = rng.normal(0, 1, A[tuple(first)].shape) * 10 ** rng.uniform(-1, 1)
    if rng.random() < 0.5:
        Gprof = np.abs(Gprof) * float(rng.choice([-1.0, 1.0]))       # one-signed: pure inflow on one side, outflow on the other
    flux = np.broadcast_to(Gprof * A[tuple(first)], A.shape)
    with np.errstate(all='ignore'):
        uk = np.where(A > 0, flux / np.where(A > 0, A, 1.0), 0.0)
    u = [np.zeros(g.face_shape(j)) for j in range(g.nd)]
    u[k] = uk
    return u, k


def discrete_div_error(m, g, u):
    """normalised discrete divergence |divergenceTerm(u)| / (sum_f |A_f u_f| / V) measured with the REAL divergenceTerm"""
    d = np.asarray(pf.divergenceTerm(gen.facevar(pf, m, u))).ravel()[interior_index(g.dims)].reshape(g.dims)
    V = g.vol_midpoint() if g.cls == 'SphericalGrid3D' else g.vol_exact()
    tot = np.zeros(g.dims)
    for k in range(g.nd):
        AF = np.abs(code_areas(g, k) * u[k])
        hi = [slice(None)] * g.nd
        lo = [slice(None)] * g.nd
        hi[k] = slice(1, None)
        lo[k] = slice(0, -1)
        tot += AF[tuple(hi)] + AF[tuple(lo)]
    s = tot / V
    with np.errstate(all='ignore'):
        e = np.where(d == 0, 0.0, np.abs(d) / np.where(s > 0, s, 1.0))
    return float(np.max(e)) if e.size else 0.0
