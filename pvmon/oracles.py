"""Independent reference formulas (never read pyfvtool's own formulas).

Geometry is written once from the textbook metric of each coordinate system:
scale factors h = (1,1,1) Cartesian; (1, r, 1) cylindrical/polar; (1, r, r sin(theta))
spherical.  Exact face areas and cell volumes are closed-form integrals of h.
"""
from fractions import Fraction
import math

import numpy as np

CLASSES = ['Grid1D', 'CylindricalGrid1D', 'SphericalGrid1D',
           'Grid2D', 'CylindricalGrid2D', 'PolarGrid2D',
           'Grid3D', 'CylindricalGrid3D', 'SphericalGrid3D']
NDIM = {'Grid1D': 1, 'CylindricalGrid1D': 1, 'SphericalGrid1D': 1,
        'Grid2D': 2, 'CylindricalGrid2D': 2, 'PolarGrid2D': 2,
        'Grid3D': 3, 'CylindricalGrid3D': 3, 'SphericalGrid3D': 3}
# coordinate labels per internal axis
LABELS = {'Grid1D': ('x',), 'CylindricalGrid1D': ('r',), 'SphericalGrid1D': ('r',),
          'Grid2D': ('x', 'y'), 'CylindricalGrid2D': ('r', 'z'), 'PolarGrid2D': ('r', 'theta'),
          'Grid3D': ('x', 'y', 'z'), 'CylindricalGrid3D': ('r', 'theta', 'z'),
          'SphericalGrid3D': ('r', 'theta', 'phi')}
# axis kinds: 'len' Cartesian length, 'rad' radial, 'ang' azimuthal angle (0..2pi),
# 'pol' polar angle (0..pi)
AXKIND = {'Grid1D': ('len',), 'CylindricalGrid1D': ('rad',), 'SphericalGrid1D': ('rad',),
          'Grid2D': ('len', 'len'), 'CylindricalGrid2D': ('rad', 'len'), 'PolarGrid2D': ('rad', 'ang'),
          'Grid3D': ('len', 'len', 'len'), 'CylindricalGrid3D': ('rad', 'ang', 'len'),
          'SphericalGrid3D': ('rad', 'pol', 'ang')}
SIDES = [('left', 'right'), ('bottom', 'top'), ('back', 'front')]
ALL_LABELS = ('x', 'y', 'z', 'r', 'theta', 'phi')


def _bc(a, k, nd):
    """reshape 1-D array `a` so that it runs along axis k of an nd-array"""
    sh = [1] * nd
    sh[k] = -1
    return np.asarray(a, dtype=float).reshape(sh)


class Geom:
    """Oracle geometry of a structured grid given its class name and face positions."""

    def __init__(self, cls, faces):
        self.cls = cls
        self.nd = NDIM[cls]
        self.faces = [np.asarray(f, dtype=float) for f in faces]
        assert len(self.faces) == self.nd
        self.N = [len(f) - 1 for f in self.faces]
        self.dims = tuple(self.N)
        self.c = [0.5 * (f[1:] + f[:-1]) for f in self.faces]
        self.w = [f[1:] - f[:-1] for f in self.faces]
        self.wfull = [np.concatenate([[w[0]], w, [w[-1]]]) for w in self.w]

    def cond(self):
        """how badly differences of face positions are conditioned: max |face| / min width over all axes (1e2 on ordinary grids,
        1e8 for a unit box at x = 1e6 with 1e-2 cells): rounding of any geometry expression is at least eps * cond()"""
        return float(max(float(np.max(np.abs(f))) / float(np.min(w)) for f, w in zip(self.faces, self.w)))

    # ---- shapes
    def face_shape(self, k):
        s = list(self.dims)
        s[k] += 1
        return tuple(s)

    def full_shape(self):
        return tuple(n + 2 for n in self.dims)

    def side_shape(self, k):
        if self.nd == 1:
            return (1,)
        return tuple(n for i, n in enumerate(self.dims) if i != k)

    # ---- metric
    def hscale(self, k):
        """scale factor of axis k at cell centres, broadcastable over dims"""
        nd = self.nd
        cls = self.cls
        if k == 0:
            return np.ones([1] * nd)
        if cls in ('PolarGrid2D', 'CylindricalGrid3D') and k == 1:
            return _bc(self.c[0], 0, nd)
        if cls == 'SphericalGrid3D':
            if k == 1:
                return _bc(self.c[0], 0, nd)
            if k == 2:
                return _bc(self.c[0], 0, nd) * _bc(np.sin(self.c[1]), 1, nd)
        return np.ones([1] * nd)

    def vol_exact(self):
        cls, f, w = self.cls, self.faces, self.w
        if cls == 'Grid1D':
            return w[0].copy()
        if cls == 'CylindricalGrid1D':
            return math.pi * (f[0][1:] ** 2 - f[0][:-1] ** 2)
        if cls == 'SphericalGrid1D':
            return 4.0 / 3.0 * math.pi * (f[0][1:] ** 3 - f[0][:-1] ** 3)
        if cls == 'Grid2D':
            return w[0][:, None] * w[1][None, :]
        if cls == 'CylindricalGrid2D':
            return math.pi * (f[0][1:] ** 2 - f[0][:-1] ** 2)[:, None] * w[1][None, :]
        if cls == 'PolarGrid2D':
            return 0.5 * (f[0][1:] ** 2 - f[0][:-1] ** 2)[:, None] * w[1][None, :]
        if cls == 'Grid3D':
            return w[0][:, None, None] * w[1][None, :, None] * w[2][None, None, :]
        if cls == 'CylindricalGrid3D':
            return 0.5 * (f[0][1:] ** 2 - f[0][:-1] ** 2)[:, None, None] * w[1][None, :, None] * w[2][None, None, :]
        if cls == 'SphericalGrid3D':
            return ((f[0][1:] ** 3 - f[0][:-1] ** 3) / 3.0)[:, None, None] \
                * (np.cos(f[1][:-1]) - np.cos(f[1][1:]))[None, :, None] * w[2][None, None, :]
        raise KeyError(cls)

    def vol_factors_sph3d(self):
        """(r-factor, theta-factor exact, phi-factor) of the spherical shell sector volume"""
        f, w = self.faces, self.w
        return ((f[0][1:] ** 3 - f[0][:-1] ** 3) / 3.0, np.cos(f[1][:-1]) - np.cos(f[1][1:]), w[2])

    def vol_midpoint(self):
        """midpoint-rule measure J(centre)*prod(widths) (what a midpoint FV operator divides by)"""
        nd = self.nd
        V = np.ones(self.dims)
        for k in range(nd):
            V = V * _bc(self.w[k], k, nd)
        cls = self.cls
        if cls == 'CylindricalGrid1D':
            V = V * 2 * math.pi * self.c[0]
        elif cls == 'SphericalGrid1D':
            V = V * 4 * math.pi * self.c[0] ** 2
        elif cls == 'CylindricalGrid2D':
            V = V * 2 * math.pi * _bc(self.c[0], 0, nd)
        elif cls in ('PolarGrid2D', 'CylindricalGrid3D'):
            V = V * _bc(self.c[0], 0, nd)
        elif cls == 'SphericalGrid3D':
            V = V * _bc(self.c[0] ** 2, 0, nd) * _bc(np.sin(self.c[1]), 1, nd)
        return V

    def area(self, k, measure='exact'):
        """face areas normal to axis k, shape face_shape(k).
        measure='exact': true geometric areas; 'midpoint': areas consistent with vol_midpoint."""
        cls, f, w, c, nd = self.cls, self.faces, self.w, self.c, self.nd
        one = np.ones(self.face_shape(k))
        if cls == 'Grid1D':
            return one
        if cls == 'CylindricalGrid1D':
            return 2 * math.pi * f[0]
        if cls == 'SphericalGrid1D':
            return 4 * math.pi * f[0] ** 2
        if cls == 'Grid2D':
            return one * (w[1][None, :] if k == 0 else w[0][:, None])
        if cls == 'CylindricalGrid2D':
            if k == 0:
                return 2 * math.pi * f[0][:, None] * w[1][None, :]
            if measure == 'exact':
                return one * (math.pi * (f[0][1:] ** 2 - f[0][:-1] ** 2))[:, None]
            return one * (2 * math.pi * c[0] * w[0])[:, None]
        if cls == 'PolarGrid2D':
            if k == 0:
                return f[0][:, None] * w[1][None, :]
            return one * w[0][:, None]
        if cls == 'Grid3D':
            o = [i for i in range(3) if i != k]
            return one * _bc(w[o[0]], o[0], 3) * _bc(w[o[1]], o[1], 3)
        if cls == 'CylindricalGrid3D':
            if k == 0:
                return _bc(f[0], 0, 3) * _bc(w[1], 1, 3) * _bc(w[2], 2, 3)
            if k == 1:
                return one * _bc(w[0], 0, 3) * _bc(w[2], 2, 3)
            return one * _bc(0.5 * (f[0][1:] ** 2 - f[0][:-1] ** 2), 0, 3) * _bc(w[1], 1, 3)
        if cls == 'SphericalGrid3D':
            if measure == 'exact':
                if k == 0:
                    return _bc(f[0] ** 2, 0, 3) * _bc(np.cos(f[1][:-1]) - np.cos(f[1][1:]), 1, 3) * _bc(w[2], 2, 3)
                if k == 1:
                    return _bc(0.5 * (f[0][1:] ** 2 - f[0][:-1] ** 2), 0, 3) * _bc(np.sin(f[1]), 1, 3) * _bc(w[2], 2, 3)
                return one * _bc(0.5 * (f[0][1:] ** 2 - f[0][:-1] ** 2), 0, 3) * _bc(w[1], 1, 3)
            if k == 0:
                return _bc(f[0] ** 2, 0, 3) * _bc(np.sin(c[1]) * w[1], 1, 3) * _bc(w[2], 2, 3)
            if k == 1:
                return _bc(c[0] * w[0], 0, 3) * _bc(np.sin(f[1]), 1, 3) * _bc(w[2], 2, 3)
            return one * _bc(c[0] * w[0], 0, 3) * _bc(w[1], 1, 3)
        raise KeyError(cls)

    def domain_volume(self):
        cls, f = self.cls, self.faces
        L = [x[-1] - x[0] for x in f]
        if cls in ('Grid1D', 'Grid2D', 'Grid3D'):
            return float(np.prod(L))
        if cls == 'CylindricalGrid1D':
            return math.pi * (f[0][-1] ** 2 - f[0][0] ** 2)
        if cls == 'SphericalGrid1D':
            return 4 / 3 * math.pi * (f[0][-1] ** 3 - f[0][0] ** 3)
        if cls == 'CylindricalGrid2D':
            return math.pi * (f[0][-1] ** 2 - f[0][0] ** 2) * L[1]
        if cls == 'PolarGrid2D':
            return 0.5 * (f[0][-1] ** 2 - f[0][0] ** 2) * L[1]
        if cls == 'CylindricalGrid3D':
            return 0.5 * (f[0][-1] ** 2 - f[0][0] ** 2) * L[1] * L[2]
        if cls == 'SphericalGrid3D':
            return (f[0][-1] ** 3 - f[0][0] ** 3) / 3 * (math.cos(f[1][0]) - math.cos(f[1][-1])) * L[2]
        raise KeyError(cls)

    # ---- slicing helpers on full (ghost-inclusive) arrays
    def interior(self, full):
        full = np.asarray(full).reshape(self.full_shape())
        return full[tuple(slice(1, -1) for _ in range(self.nd))]

    def pair_along(self, full, k):
        """(lo, hi): the two cell layers adjacent to every face normal to axis k, interior in the
        other axes; each has shape face_shape(k)."""
        full = np.asarray(full).reshape(self.full_shape())
        lo = [slice(1, -1)] * self.nd
        hi = [slice(1, -1)] * self.nd
        lo[k] = slice(0, -1)
        hi[k] = slice(1, None)
        return full[tuple(lo)], full[tuple(hi)]

    # ---- oracle face operators
    def centre_dist(self, k):
        wf = self.wfull[k]
        return _bc(0.5 * (wf[:-1] + wf[1:]), k, self.nd)

    def grad(self, full, k):
        lo, hi = self.pair_along(full, k)
        return (hi - lo) / (self.centre_dist(k) * self.hscale(k))

    def lin(self, full, k):
        lo, hi = self.pair_along(full, k)
        wf = self.wfull[k]
        wl, wh = _bc(wf[:-1], k, self.nd), _bc(wf[1:], k, self.nd)
        return (wh * lo + wl * hi) / (wl + wh)

    def arith(self, full, k):
        lo, hi = self.pair_along(full, k)
        wf = self.wfull[k]
        wl, wh = _bc(wf[:-1], k, self.nd), _bc(wf[1:], k, self.nd)
        return (wl * lo + wh * hi) / (wl + wh)

    def geo(self, full, k):
        lo, hi = self.pair_along(full, k)
        wf = self.wfull[k]
        wl, wh = _bc(wf[:-1], k, self.nd), _bc(wf[1:], k, self.nd)
        with np.errstate(all='ignore'):
            out = np.exp((wl * np.log(lo) + wh * np.log(hi)) / (wl + wh))
        return np.where((lo == 0) | (hi == 0), 0.0, out)

    def harm(self, full, k):
        lo, hi = self.pair_along(full, k)
        wf = self.wfull[k]
        wl, wh = _bc(wf[:-1], k, self.nd), _bc(wf[1:], k, self.nd)
        with np.errstate(all='ignore'):
            out = (wl + wh) / (wl / lo + wh / hi)
        return np.where((lo == 0) | (hi == 0), 0.0, out)

    def upwind(self, full, k, udir):
        """donor-cell face value: by sign of udir; boundary faces with inflow use the face
        average of ghost and first interior cell; udir == 0: plain average."""
        lo, hi = self.pair_along(full, k)
        lo = lo.copy()
        hi = hi.copy()
        first = [slice(None)] * self.nd
        last = [slice(None)] * self.nd
        first[k] = 0
        last[k] = -1
        first, last = tuple(first), tuple(last)
        avg = 0.5 * (lo + hi)
        lo[first] = avg[first]
        hi[last] = avg[last]
        return np.where(udir > 0, lo, np.where(udir < 0, hi, avg))

    def div(self, F, measure='exact', V=None):
        """flux-form divergence sum_k (A+ F+ - A- F-)/V for face arrays F[k]"""
        if V is None:
            V = self.vol_exact() if measure == 'exact' else self.vol_midpoint_op()
        out = np.zeros(self.dims)
        for k in range(self.nd):
            AF = self.area(k, measure) * F[k]
            hi = [slice(None)] * self.nd
            lo = [slice(None)] * self.nd
            hi[k] = slice(1, None)
            lo[k] = slice(0, -1)
            out += (AF[tuple(hi)] - AF[tuple(lo)])
        return out / V

    def vol_midpoint_op(self):
        """the measure consistent with area(k,'midpoint') (without the 2*pi / 4*pi revolution
        factors of the 1-D/2-D axisymmetric classes these coincide with the exact one)"""
        if self.cls == 'SphericalGrid3D':
            return self.vol_midpoint()
        return self.vol_exact()


# ---------------------------------------------------------------------------
# Flux limiters: published closed forms (Waterson & Deconinck / Wikipedia "Flux limiter"),
# evaluated in exact rational arithmetic so that removable singularities are decided exactly.

LIMITERS = ['CHARM', 'HCUS', 'HQUICK', 'ospre', 'VanLeer', 'VanAlbada1', 'VanAlbada2', 'MinMod',
            'SUPERBEE', 'Sweby', 'Osher', 'Koren', 'smart', 'MUSCL', 'QUICK', 'UMIST']
CLIP_FAMILY = ['MinMod', 'SUPERBEE', 'Osher', 'Sweby', 'Koren', 'MUSCL', 'QUICK', 'UMIST', 'smart', 'VanLeer']


def limiter_exact(name, r):
    """psi(r) for r a Fraction; returns a Fraction (limit value at removable singularities)."""
    r = Fraction(r)
    F = Fraction
    a = abs(r)
    if name == 'CHARM':
        if r <= 0:
            return F(0)
        return r * (3 * r + 1) / (r + 1) ** 2
    if name == 'HCUS':
        if r <= 0:
            return F(0)          # 1.5(r+|r|)/(r+2): numerator is 0 for r<=0 (limit at r=-2 is 0)
        return F(3, 2) * (r + a) / (r + 2)
    if name == 'HQUICK':
        if r <= 0:
            return F(0)
        return 2 * (r + a) / (r + 3)
    if name == 'ospre':
        return F(3, 2) * (r * r + r) / (r * r + r + 1)
    if name == 'VanLeer':
        return (r + a) / (1 + a)
    if name == 'VanAlbada1':
        return (r * r + r) / (r * r + 1)
    if name == 'VanAlbada2':
        return 2 * r / (r * r + 1)
    if name == 'MinMod':
        return max(F(0), min(F(1), r))
    if name == 'SUPERBEE':
        return max(F(0), min(2 * r, F(1)), min(r, F(2)))
    if name == 'Sweby':
        b = F(3, 2)
        return max(F(0), min(b * r, F(1)), min(r, b))
    if name == 'Osher':
        b = F(3, 2)
        return max(F(0), min(r, b))
    if name == 'Koren':
        return max(F(0), min(2 * r, min((1 + 2 * r) / 3, F(2))))
    if name == 'smart':
        return max(F(0), min(2 * r, F(1, 4) + F(3, 4) * r, F(4)))
    if name == 'MUSCL':
        return max(F(0), min(2 * r, (1 + r) / 2, F(2)))
    if name == 'QUICK':
        return max(F(0), min(2 * r, (3 + r) / 4, F(2)))
    if name == 'UMIST':
        return max(F(0), min(2 * r, (1 + 3 * r) / 4, (3 + r) / 4, F(2)))
    raise KeyError(name)
