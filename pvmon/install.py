"""Always-on monitor layer attached from OUTSIDE to the real pyfvtool (no source hooks in /repo).

`install()` wraps the public functions of the pyfvtool modules *and* the aliases bound by `from .x import f` in sibling
modules and in pyfvtool/__init__ (references bound before decoration would bypass the contract), and decorates the nine
mesh classes with an icontract class invariant.  Monitors record instead of raising (a raising contract would abort the
execution it observes); evaluations are counted per (monitor, function) so that "silent" can be told from "never reached".

Monitors:  C10 mesh invariant (icontract.invariant)            - every mesh construction
           C13 limiter post-condition (icontract.ensure)        - every FL(r) call
           C15 purity snapshot                                  - every public builder / solver call
           C04 interior-rows-only                               - every term builder call
           C03 ghost relation + boundary rows                   - after apply_BCs / solvePDE / solveExplicitPDE / construction
Enabled only when the environment variable PYFVTOOL_VERIF is set (the guard named in MANIFEST.hooks)."""
import functools
import os
import sys
from collections import Counter

import numpy as np
import scipy.sparse as sp

try:
    import icontract
    HAVE_ICONTRACT = True
except Exception:      # fall back to plain wrappers with the same condition functions
    icontract = None
    HAVE_ICONTRACT = False

STATE = {'installed': False, 'violations': [], 'counters': Counter(), 'busy': 0}


class MonitorViolation(Exception):
    pass


def record(prop, mech, msg):
    STATE['violations'].append({'property': prop, 'mech': mech, 'msg': msg[:600]})


def count(key, n=1):
    STATE['counters'][key] += n


def _guarded(fn):
    """monitors must not observe their own probe calls"""
    @functools.wraps(fn)
    def inner(*a, **k):
        if STATE['busy']:
            return True
        STATE['busy'] += 1
        try:
            return fn(*a, **k)
        except Exception as e:   # a monitor bug is never a verdict on the code
            count('monitor_errors')
            STATE.setdefault('monitor_error_examples', []).append('%s: %s: %s' % (fn.__name__, type(e).__name__, e))
            return True
        finally:
            STATE['busy'] -= 1
    return inner


def install():
    if STATE['installed'] or not os.environ.get('PYFVTOOL_VERIF'):
        return STATE
    import pyfvtool as pf
    from pyfvtool import mesh as pmesh, utilities as putil, boundary as pbound, cell as pcell, pdesolver as psolver
    from . import oracles
    from .props.c10 import check_mesh, KEY_SPH3D
    from .bcrel import check_ghosts
    from .purity import snapshot, diff_snap
    from .common import interior_index

    # ---------------------------------------------------------------- C10: class invariant on the nine mesh classes
    @_guarded
    def mesh_invariant(self):
        cls = type(self).__name__
        if cls not in oracles.CLASSES or self.__dict__.get('_pv_checked') or 'facecenters' not in self.__dict__:
            return True
        self.__dict__['_pv_checked'] = True      # meshes are immutable: check each object once
        faces = [np.asarray(getattr(self.facecenters, ax)) for ax in ('_x', '_y', '_z')][:oracles.NDIM[cls]]
        if any(f.ndim != 1 or f.size < 2 or not np.all(np.diff(f) > 0) for f in faces):
            count('C10:skipped_precondition')      # the property quantifies over strictly increasing face positions only
            return True
        bad = check_mesh(self, cls, faces, 'NL')      # constructor form unknown here: centres / sizes within 8 ulp of the extent
        count('C10:mesh_invariant:' + cls)
        for mech, msg in bad:
            if mech != KEY_SPH3D:
                record('C10', cls + '/' + mech, msg)
            else:
                count('C10:known:' + KEY_SPH3D)
        return True
    for name in oracles.CLASSES:
        klass = getattr(pmesh, name)
        if HAVE_ICONTRACT:
            # icontract class invariant: evaluated after __init__ and after every public method of the mesh class
            icontract.invariant(mesh_invariant, error=MonitorViolation)(klass)
            count('C10:icontract_invariant_classes')
        else:
            orig_init = klass.__init__

            def make_init2(orig_init, klass):
                def __init__(self, *a, **k):
                    orig_init(self, *a, **k)
                    if type(self) is klass:
                        mesh_invariant(self)
                return __init__
            klass.__init__ = make_init2(orig_init, klass)

    # ---------------------------------------------------------------- C13: post-condition on every limiter evaluation
    @_guarded
    def fl_post(name, r, result):
        count('C13:fl_calls')
        r = np.asarray(r, dtype=float)
        res = np.asarray(result)
        if res.shape != r.shape:
            record('C13', name + '/shape', 'FL %s: result shape %r != input shape %r' % (name, res.shape, r.shape))
            return True
        fin_in = np.isfinite(r)
        if np.any(fin_in & ~np.isfinite(np.asarray(res, dtype=float))):
            i = int(np.argmax((fin_in & ~np.isfinite(np.asarray(res, dtype=float))).ravel()))
            record('C13', name + '/nonfinite', 'FL %s(%r) is not finite' % (name, r.ravel()[i]))
        count('C13:fl_values', int(r.size))
        return True
    orig_fluxLimiter = putil.fluxLimiter

    @functools.wraps(orig_fluxLimiter)
    def fluxLimiter(flName, *a, **k):
        FL = orig_fluxLimiter(flName, *a, **k)
        if HAVE_ICONTRACT:
            def named(r):
                return FL(r)
            wrapped = icontract.ensure(lambda r, result: fl_post(str(flName), r, result), error=MonitorViolation)(named)
            return wrapped

        def plain(r):
            out = FL(r)
            fl_post(str(flName), r, out)
            return out
        return plain
    _rebind('fluxLimiter', orig_fluxLimiter, fluxLimiter)

    # ---------------------------------------------------------------- C15 / C04: builders are pure and emit interior rows only
    builders = {
        'diffusion': ['diffusionTerm'], 'advection': ['convectionTerm', 'convectionUpwindTerm', 'convectionTVDupwindRHSTerm'],
        'source': ['linearSourceTerm', 'constantSourceTerm', 'transientTerm'],
        'calculus': ['gradientTerm', 'divergenceTerm'],
        'averaging': ['linearMean', 'arithmeticMean', 'geometricMean', 'harmonicMean', 'upwindMean'],
        'boundary': ['boundaryConditionsTerm'],
        'cell': ['cellLocations'], 'face': ['faceLocations'],
    }
    term_builders = {'diffusionTerm', 'convectionTerm', 'convectionUpwindTerm', 'convectionTVDupwindRHSTerm', 'linearSourceTerm',
                     'constantSourceTerm', 'transientTerm', 'divergenceTerm'}

    def wrap_builder(modname, fname):
        mod = sys.modules['pyfvtool.' + modname]
        orig = getattr(mod, fname)

        @functools.wraps(orig)
        def wrapper(*a, **k):
            if STATE['busy']:
                return orig(*a, **k)
            STATE['busy'] += 1
            try:
                args = [x for x in a if not callable(x) or isinstance(x, pf.CellVariable)]
                try:
                    pre = snapshot(args)
                except Exception:
                    pre = None
            finally:
                STATE['busy'] -= 1
            out = orig(*a, **k)
            STATE['busy'] += 1
            try:
                if pre is not None:
                    post = snapshot(args)
                    ch = diff_snap(pre, post)
                    count('C15:purity:' + fname)
                    if ch:
                        record('C15', fname + '/input-modified', '%s modified its input: %s' % (fname, ch[:4]))
                if fname in term_builders:
                    dom = None
                    for x in a:
                        dom = getattr(x, 'domain', None)
                        if dom is not None:
                            break
                    if dom is not None:
                        dims = tuple(int(d) for d in dom.dims)
                        nfull = int(np.prod([d + 2 for d in dims]))
                        mask = np.ones(nfull, dtype=bool)
                        mask[interior_index(dims)] = False
                        parts = out if isinstance(out, tuple) else (out,)
                        for part in parts:
                            if sp.issparse(part):
                                sub = sp.csr_array(part)[np.flatnonzero(mask), :]
                                if sub.nnz and np.any(sub.data != 0):
                                    record('C04', fname + '/ghost-rows', '%s writes into a ghost/boundary-cell equation' % fname)
                            elif isinstance(part, np.ndarray) and part.shape == (nfull,):
                                if np.any(part[mask] != 0):
                                    record('C04', fname + '/ghost-rows', '%s has a non-zero entry in a ghost/boundary-cell equation' % fname)
                        count('C04:rows:' + fname)
            except Exception as e:
                count('monitor_errors')
                STATE.setdefault('monitor_error_examples', []).append('%s: %s: %s' % (fname, type(e).__name__, e))
            finally:
                STATE['busy'] -= 1
            return out
        _rebind(fname, orig, wrapper)
    for modname, names in builders.items():
        for fname in names:
            wrap_builder(modname, fname)

    # ---------------------------------------------------------------- C03: ghosts after every (re)computation
    @_guarded
    def ghosts_ok(var, where):
        cls = type(var.domain).__name__
        if cls not in oracles.CLASSES:
            return True
        full = np.asarray(var._value, dtype=float)
        it = tuple(slice(1, -1) for _ in range(full.ndim))
        if not np.all(np.isfinite(full[it])):
            count('C03:skipped_nonfinite')
            return True
        faces = [np.asarray(getattr(var.domain.facecenters, ax)) for ax in ('_x', '_y', '_z')][:oracles.NDIM[cls]]
        g = oracles.Geom(cls, faces)
        from .bcrel import side_layers
        for k_ in range(g.nd):
            for j_ in (0, 1):
                gh_, _it = side_layers(g, full, k_, j_)
                if not np.all(np.isfinite(gh_)):
                    count('C03:skipped_nonfinite')      # numerically singular boundary coefficients: nothing to decide
                    return True
        bad, me, cv = check_ghosts(g, full, var.BCs)
        count('C03:ghost_checks:' + where)
        for mech, msg in bad:
            # ghost coefficients that are numerically singular give non-finite / huge ghosts legitimately
            record('C03', '%dD/%s' % (g.nd, mech), where + ': ' + msg)
        return True
    orig_apply = pcell.CellVariable.apply_BCs

    @functools.wraps(orig_apply)
    def apply_BCs(self):
        out = orig_apply(self)
        ghosts_ok(self, 'apply_BCs')
        return out
    pcell.CellVariable.apply_BCs = apply_BCs

    for fname in ('solvePDE', 'solveExplicitPDE', 'solveMatrixPDE'):
        orig = getattr(psolver, fname)

        def make(orig, fname):
            @functools.wraps(orig)
            def wrapper(*a, **k):
                if STATE['busy']:
                    return orig(*a, **k)
                STATE['busy'] += 1
                try:
                    others = list(a[1:]) + list(k.values())
                    others = [x for x in others if not callable(x)]
                    try:
                        pre = snapshot(others)
                        vis = snapshot([a[0]], visible_only_for=[a[0]]) if fname == 'solveExplicitPDE' else None
                    except Exception:
                        pre = vis = None
                finally:
                    STATE['busy'] -= 1
                out = orig(*a, **k)
                STATE['busy'] += 1
                try:
                    if pre is not None:
                        ch = diff_snap(pre, snapshot(others))
                        count('C15:purity:' + fname)
                        if ch:
                            record('C15', fname + '/input-modified', '%s modified an argument other than its solution variable: %s' % (fname, ch[:4]))
                    if vis is not None:
                        ch = diff_snap(vis, snapshot([a[0]], visible_only_for=[a[0]]))
                        if ch:
                            record('C15', fname + '/input-modified', 'solveExplicitPDE changed the visible state of its input: %s' % ch[:4])
                    if fname == 'solvePDE' and out is not a[0]:
                        record('C04', 'identity', 'solvePDE did not return its variable')
                    if fname == 'solvePDE':
                        count('C04:solvePDE_calls')
                except Exception as e:
                    count('monitor_errors')
                finally:
                    STATE['busy'] -= 1
                return out
            return wrapper
        _rebind(fname, orig, make(orig, fname))

    STATE['installed'] = True
    count('installed')
    return STATE


def _rebind(name, orig, new):
    """replace every module-level reference to `orig` under pyfvtool.* (definitions and from-import aliases)"""
    n = 0
    for modname, mod in list(sys.modules.items()):
        if mod is None or not (modname == 'pyfvtool' or modname.startswith('pyfvtool.')):
            continue
        for attr, val in list(vars(mod).items()):
            if val is orig:
                setattr(mod, attr, new)
                n += 1
    count('rebinds', n)
    return n


def summary():
    return {'violations': STATE['violations'], 'counters': dict(STATE['counters']),
            'monitor_error_examples': STATE.get('monitor_error_examples', [])[:5], 'icontract': HAVE_ICONTRACT}
